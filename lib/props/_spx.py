"""The redirect the SSO proxy hands to the SSO server (C04 and C16).

Driver `wwh spxredirect`: GET <ingress>/oauth2/login?redirect=X and <ingress>/oauth2/logout?redirect=X through the REAL
router of REAL handler.SSOProxy instances (several deployments: one ingress at the root / below a path prefix / with a port,
several ingresses), X from the configuration-derived near misses (harness/cmd/wwh/nearmiss.go) of the deployment's ingresses
and SSO server URL plus the string sets of the `redirect` driver.
Correspondence: status, target endpoint and the handed-over redirect vs Model/Redirect.v (spx_login_handover /
spx_logout_handover = ingress matching + SSOProxyRedirect.Canonical).
Monitor (from the property texts, independent of the model):
  C16 "sends login, logout ... requests to the configured SSO server, passing a redirect confined to its own ingress"
  C04 "every Location ... from the SSO proxy's login/logout resolves, as a browser resolves it, to the same origin as the
       matching ingress ... otherwise the operator-configured default (... SSO server endpoint) is used"
  -> the response is a 302 to <configured SSO server URL>/oauth2/login|logout, and the redirect parameter it carries - which
     the SSO server later emits as a Location from its own origin - resolves (Node's WHATWG URL) to the origin (scheme, host,
     port) of an ingress of this deployment that serves the request's host, and is literally that ingress' origin followed by
     nothing, "/", "?" or "#" - or it is exactly one of the configured ingresses (the operator-configured default).
"""
import re
import time

from lib import vf
from lib.props import c04

KEYS = {
    "C04": ("c04-ssoproxy-handover-offsite", "c04-ssoproxy-not-to-sso-server"),
    "C16": ("c16-proxy-handover-not-confined", "c16-proxy-handover-not-to-sso-server"),
}

ORIGIN_RE = re.compile(rb"^(https?://[^/?#]*)")


def pub(case):
    return {k: v for k, v in case.items() if not k.startswith("_")}


def unhex(t):
    return b"" if t == "-" else bytes.fromhex(t)


def run(ctx, prop):
    key_conf, key_srv = KEYS[prop]
    pre = ctx.path("spxredirect")
    cfile = ctx.path("spx-corpus.hex")
    c04.corpus(cfile)
    out, dt = vf.run_driver(["spxredirect", "-out", pre, "-seed", str(ctx.seed), "-tier", ctx.tier, "-corpus", cfile])
    ctx.timings["spxredirect_driver"] = round(dt, 2)
    ctx.correspondence("real router + handler.SSOProxy Login/Logout (status, SSO server endpoint, redirect handed to the SSO server) "
                       "vs Model/Redirect.v spx_login_handover/spx_logout_handover (ingress matching + SSOProxyRedirect.Canonical)",
                       pre + ".in", pre + ".impl")

    t0 = time.time()
    cases = []
    to_resolve = {}     # (base, input) -> index into the oracle batch
    def want(base, s):
        return to_resolve.setdefault((base, s), len(to_resolve))
    stats = {"requests": 0, "login": 0, "logout": 0, "handed_over": 0, "handed_over_not_the_bare_ingress": 0, "request_host_unknown": 0,
             "deployments": 0}
    deployments = set()
    with open(pre + ".in") as fi, open(pre + ".impl") as fo:
        for li, lo in zip(fi, fo):
            ti, to = li.split(), lo.split()
            ings = [unhex(x) for x in ti[1].split(",")]
            server, reqhost, reqpath, logout, param = unhex(ti[3]), unhex(ti[4]), unhex(ti[5]), ti[6] == "1", unhex(ti[7])
            deployments.add(ti[1])
            # the ingresses as the operator's defaults (ParseIngress drops trailing slashes of the path)
            defaults = {i.rstrip(b"/") for i in ings}
            stats["requests"] += 1
            stats["logout" if logout else "login"] += 1
            status, loc = unhex(to[0]), unhex(to[1])
            present = len(to) > 2 and to[2] == "01"
            handed = unhex(to[3]) if present and len(to) > 3 else b""
            malformed = len(to) > 2 and to[2] == "45"
            # "its own ingress": the configured ingresses on the host the request was sent to; a request for a host the
            # deployment does not serve can only be answered with one of the configured ingresses
            own = [i for i in ings if ORIGIN_RE.match(i) and ORIGIN_RE.match(i).group(1).split(b"://", 1)[1] == reqhost]
            if not own:
                own = ings
                stats["request_host_unknown"] += 1
            case = {"mode": "sso-proxy (real router, handler.SSOProxy.%s)" % ("Logout" if logout else "Login"),
                    "configured_ingresses": [repr(i) for i in ings], "configured_sso_server_url": repr(server),
                    "request": "GET %s%s?redirect=<redirect_param, query-escaped>" % (reqhost.decode("latin1"), reqpath.decode("latin1")),
                    "redirect_param": repr(param), "status": status.decode("latin1"), "location_without_query": repr(loc),
                    "redirect_handed_to_sso_server": repr(handed) if present else None, "input": li.strip(), "impl": lo.strip(),
                    "_defaults": defaults}
            endpoint = server + (b"/oauth2/logout" if logout else b"/oauth2/login")
            if status != b"302" or loc != endpoint or malformed:
                ctx.violation(key_srv, "SSO proxy login/logout did not answer with a 302 to the configured SSO server's endpoint", pub(case))
                continue
            if not present:
                continue
            stats["handed_over"] += 1
            if handed not in defaults:
                stats["handed_over_not_the_bare_ingress"] += 1
            cases.append((case, own, endpoint, handed, want(endpoint, handed), [want(endpoint, i) for i in own]))
    pairs = sorted(to_resolve, key=to_resolve.get)
    res = c04.node_resolve(ctx, "spx-monitor", pairs) if pairs else []
    distinct = set()
    nviol = n_default = 0
    for case, own, endpoint, handed, hi, ois in cases:
        o = c04.parse_origin(res[hi])
        own_origins = [c04.parse_origin(res[k]) for k in ois]
        literal = False
        for i in own:
            m = ORIGIN_RE.match(i)
            if m and handed.startswith(m.group(1)) and handed[len(m.group(1)):len(m.group(1)) + 1] in (b"", b"/", b"?", b"#"):
                literal = True
        distinct.add((case["configured_ingresses"][0], handed))
        bad = None
        if handed in case["_defaults"]:
            # "otherwise the operator-configured default (ingress root ...) is used": exactly a configured ingress
            n_default += 1
        elif o[0] == "F":
            # the browser refuses it: no navigation (C04); but it is not a redirect on the ingress either (C16)
            if prop == "C16":
                bad = "is not a URL a browser accepts"
        elif o[0] != "T" or o not in own_origins:
            bad = "resolves (WHATWG) outside the origin of the proxy's own ingress"
        elif not literal:
            bad = "does not literally start with the origin of the proxy's own ingress"
        if bad:
            nviol += 1
            if nviol <= 50:
                ctx.violation(key_conf, "the redirect that the SSO proxy hands to the SSO server " + bad,
                              dict(pub(case), resolved=res[hi], own_ingress_origins=[res[k] for k in ois]))
    stats["deployments"] = len(deployments)
    stats["handed_over_violating"] = nviol
    stats["handed_over_is_a_configured_ingress"] = n_default
    ctx.extra["ssoproxy_handover_monitor"] = stats
    ctx.timings["spxredirect_monitor"] = round(time.time() - t0, 2)
    if stats["handed_over"] == 0 or stats["handed_over_not_the_bare_ingress"] == 0:
        ctx.broken.append({"kind": "harness", "name": "spxredirect: no redirect was handed over / only the bare ingress (observation point blind)", "first": stats})
    for case, own, endpoint, handed, hi, ois in cases[1:40000:9973]:
        ctx.samples.append(dict(pub(case), resolved=res[hi]))
    return stats, len(distinct)


RULE = ("spxredirect: per SSO-proxy deployment (one ingress at the root; below a path prefix; with a port and trailing slash; three ingresses on two hosts with "
        "nested paths) x ingress x {login, logout}: the configuration-derived near misses of its ingresses and SSO server URL (verbatim suffixes that continue "
        "the authority / add a port / a path / a browser-only authority terminator, scheme swapped, upper-cased, last character dropped, userinfo forms, "
        "sub-domain / sibling / parent / look-alike hosts, ports; each also query-escaped once more), no parameter, requests for a host the deployment does not serve; "
        "plus the string sets of the redirect driver (exhaustive short strings, absolute-URL templates, the repo's test strings, token-structured random strings, "
        "random bytes), sampled from the seed in the quick tier")

ASSUME = ["the SSO server later emits the handed-over redirect as a Location from its own origin: it is resolved (Node WHATWG) against the SSO server endpoint",
          "X-Forwarded-Host is not sent by the spxredirect driver; SSO server URLs have no trailing slash or query (the model appends the endpoint path verbatim)",
          "with several ingresses the handler's fallback ingress (first entry of a Go map) is read off the real handler and given to the model as configuration"]
