"""C17 — automatic retries and login bounces are bounded; no endless redirect loop."""
from lib import vf
from lib.props import _cookie as ck

MAX_RETRIES = 3  # "at most three consecutive automatic retry redirects"


def monitor_chains(ctx, infile, implfile):
    sigs = set()
    cause_sigs = set()
    with open(infile) as fi, open(implfile) as fo:
        for li, lo in zip(fi, fo):
            if not li.startswith(("cscript ", "cpscript ")):
                continue
            sc = ck.Script(li)
            res = ck.parse_output(lo, sc)
            history = []
            # number of auto-retry redirects since the counter was last cleared (fresh browser, successful
            # login callback, logout callback, successful front-channel logout)
            since_clear = 0
            for it, r in zip(sc.items, res):
                history.append(ck.describe_item(sc, it))
                case = {"config": sc.cfg.describe(), "history": list(history)}
                if it["kind"] == "R":
                    st = r["status"]
                    for col in ck.name_collisions(r["cookies"]):
                        ctx.violation("c17-counter-cookie-overwritten", "two different cookies of one response share name, domain and path: the browser "
                                      "keeps only the second, a counter written first never comes back", dict(case, status=st, collision=col))
                    if st == 307:
                        since_clear += 1
                    if (it["ep"] == "C" and st == 302) or (it["ep"] == "B" and st == 302) or (it["ep"] == "F" and st == 200):
                        since_clear = 0
                    if since_clear > MAX_RETRIES:
                        ctx.violation("c17-more-than-three-retries", "more than three automatic retry redirects without a terminal error page",
                                      dict(case, status=st))
                    continue
                chain = r["chain"]
                case["status_chain"] = chain
                sigs.add((tuple(chain), sc.cfg.sso, tuple(sc.cfg.ingresses)))
                faults = it["faults"]
                n307 = since_clear
                for i, st in enumerate(chain):
                    if st == 307:
                        n307 += 1
                    if st == 429 and i != len(chain) - 1:
                        ctx.violation("c17-429-retried", "a rate-limited response was followed automatically", case)
                if n307 > MAX_RETRIES:
                    key = "c17-more-than-three-retries"
                    paths = [p for (_, _, _, p) in sc.cfg.ingress_parts()]
                    # the request path under which the loop runs is not inside the ingress path the cookie was scoped to
                    odd = [p for p in paths if p and not (it["path"] == p or it["path"].startswith(p + "/")) and it["path"].startswith(p)]
                    # ... and the browser does hold a counter cookie (some URL of the site gets it), only not for the retried URL
                    # ... and the browser does hold a counter cookie (some URL of the site gets it), only not for every URL of this
                    # origin (a cookie it returns to "/" is returned to the retried URL as well)
                    rn = sc.cfg.name("retry")
                    holds_counter = any(name == rn for (_, cs) in r["probes"] for (name, _) in cs)
                    at_root = any(name == rn for (pr, cs) in r["probes"] if pr == (sc.https, sc.host, "/") for (name, _) in cs)
                    case["browser_holds_a_retry_cookie_afterwards"] = holds_counter
                    case["retry_cookie_returned_to_the_site_root"] = at_root
                    if odd and holds_counter and not at_root:
                        key = "c17-retry-cookie-path-not-segment-prefix"
                        case["ingress_path_matched_as_string_prefix"] = odd
                    causes = sorted({ck.fault_cause(f)[1] for f in faults if ck.fault_cause(f)[1]})
                    if causes:
                        case["failure_causes"] = {c: ck.CAUSES.get(c, c) for c in causes}
                    ctx.violation(key, "more than three automatic retry redirects without a terminal error page "
                                       "(the browser never presents the counter it was just given, or was never given one)", case)
                since_clear = n307
                # however requests keep failing - whatever the cause of each failure - a request that fails every time must reach the
                # terminal error page: the followed chain may not use up its whole fault list (more than the maximum) on redirects
                if (chain and all(f.startswith("e") for f in faults) and len(faults) > MAX_RETRIES and len(chain) == len(faults)
                        and chain[-1] == 307 and not it["via"]):
                    causes = sorted({ck.fault_cause(f)[1] or "" for f in faults})
                    case["failure_causes"] = {c or "(unspecified)": ck.CAUSES.get(c, c) for c in causes}
                    ctx.violation("c17-persistent-failure-no-error-page",
                                  "a request that fails every time (%d times, causes: %s) was answered with an automatic retry redirect every time; "
                                  "no terminal error page" % (len(faults), ", ".join(c or "unspecified" for c in causes)), case)
                # which (endpoint, cause) pairs were exercised: the endpoint of each request of the chain follows from the answers
                ep = it["ep"]
                for st, f in zip(chain, faults):
                    cause_sigs.add((ep, ck.fault_cause(f)[1]))
                    if st == 307:
                        ep = {"C": "L", "B": "O"}.get(ep, ep)
                    elif st == 302 and ep == "L" and it["via"]:
                        ep = "C"
                # persistent failures must end in a terminal (non-redirect) answer
                if chain and len(chain) == len(faults) and len(faults) >= 50:
                    ctx.violation("c17-endless-loop", "the redirect chain did not end within 50 requests", case)
                if chain and chain[-1] == 307 and len(chain) < len(faults):
                    ctx.violation("c17-chain-stops-on-redirect", "chain ended on a redirect", case)
    ctx.extra["failure_causes_exercised"] = sorted("%s/%s" % (ep, c or "-") for ep, c in cause_sigs if c is not None)
    return len(sigs)


SEC = 1000000000


def rl_next(cfg, state, now):
    """Reading of the property text for one login of a browser with a valid session.
    state = (count, time of the last counted attempt or None). "The counter lapses after the window": Max-Age counts
    whole seconds, so the counter must still be there before `window` has passed since the last counted attempt,
    must be gone once the window rounded up to a whole second has passed, and may be either in between (< 1 s).
    Returns the admissible (status, next state) pairs."""
    count, last = state
    branches = []
    if last is None:
        branches.append(0)
    else:
        elapsed = now - last
        ceil_w = -(-cfg.window // SEC) * SEC
        if elapsed < cfg.window:
            branches.append(count)
        elif elapsed >= ceil_w:
            branches.append(0)
        else:
            branches += [count, 0]
    out = []
    for c in branches:
        if c >= cfg.logins:
            out.append((429, (c, last)))        # refused, nothing counted, window not restarted
        else:
            out.append((302, (c + 1, now)))     # counted, window restarted
    return out


def monitor_ratelimit(ctx, infile, implfile):
    """From the property text: with a valid session, login attempts within the window count; the (logins+1)-th gets 429;
    the counter lapses `window` after the last counted attempt; without session / disabled: never 429."""
    sigs = set()
    with open(infile) as fi, open(implfile) as fo:
        for li, lo in zip(fi, fo):
            if not li.startswith(("cscript ", "cpscript ")):
                continue
            sc = ck.Script(li)
            if any(it["kind"] != "R" for it in sc.items):
                continue
            cfg = sc.cfg
            res = ck.parse_output(lo, sc)
            has_session = False
            states = {(0, None)}    # states the property allows after the observed prefix
            now = 0
            history = []
            for it, r in zip(sc.items, res):
                now += it["dt"]
                history.append(ck.describe_item(sc, it))
                st = r["status"]
                if it["ep"] == "C" and st == 302:
                    has_session = True
                if it["ep"] in ("O", "K", "F") and st in (302, 204, 200):
                    has_session = False
                if it["ep"] != "L" or it["prompt"] or it["fault"] != "n":
                    continue
                case = {"config": cfg.describe(), "history": list(history), "status": st}
                if not cfg.rl or not has_session:
                    if st == 429:
                        ctx.violation("c17-ratelimit-unexpected-429", "429 although the rate limit is disabled or the browser has no session", case)
                    continue
                allowed = [x for s0 in states for x in rl_next(cfg, s0, now)]
                sigs.add((cfg.logins, cfg.window, tuple(sorted({a for a, _ in allowed})), st))
                nxt = {s1 for a, s1 in allowed if a == st}
                if not nxt:
                    key = "c17-ratelimit-count"
                    if cfg.window % SEC != 0:
                        key = "c17-ratelimit-window-truncated"
                    case["admissible_status"] = sorted({a for a, _ in allowed})
                    ctx.violation(key, "login rate limit: got %d, the configured limit and window admit only %s here"
                                  % (st, sorted({a for a, _ in allowed})), case)
                    # resynchronise with the implementation so that one deviation is reported once
                    nxt = {(1, now)} if st == 302 else {(cfg.logins, now)}
                states = nxt
    return len(sigs)


def monitor_request_target_forms(ctx):
    """`wwh retryloc`: the retry chains of a cookie-keeping browser whose requests are written in every request-target form
    (origin-form, absolute-form for the ingress / a foreign host, scheme without authority, foreign Host header ...), with and
    without X-Forwarded-Host, for every interactive endpoint and failure cause: at most three automatic retry redirects, then a
    terminal answer - however the request line is written."""
    import json
    pre = ctx.path("retryloc")
    out, dt = vf.run_driver(["retryloc", "-out", pre, "-seed", str(ctx.seed), "-tier", ctx.tier])
    ctx.timings["retryloc"] = round(dt, 2)
    chains = {}
    for l in open(pre + ".jsonl"):
        r = json.loads(l)
        chains.setdefault(r["chain"], []).append(r)
    sigs = set()
    for cid, rs in chains.items():
        sts = [r["status"] for r in rs]
        sigs.add((rs[0]["mode"], rs[0]["request_target_form"], bool(rs[0]["x_forwarded_host"]), rs[0]["endpoint"], rs[0]["fault"], tuple(sts)))
        n307 = sum(1 for x in sts if x == 307)
        if n307 > MAX_RETRIES or (sts and sts[-1] == 307 and len(sts) >= 6):
            r0 = rs[0]
            ctx.violation("c17-more-than-three-retries", "more than three automatic retry redirects without a terminal error page",
                          {"mode": r0["mode"], "ingresses": r0["ingresses"], "request_target_form": r0["request_target_form"],
                           "requests": ["GET %s (Host: %s%s)" % (r["request_target"], r["host_header"],
                                                                 ", X-Forwarded-Host: " + r["x_forwarded_host"] if r["x_forwarded_host"] else "") for r in rs],
                           "fault": ck.describe_fault(r0["fault"]), "status_chain": sts, "locations": [r["location"] for r in rs]})
    ctx.extra["request_target_forms"] = out.strip().split("\n")[-1]
    return len(sigs)


def run(ctx):
    pre = ctx.path("retry")
    out, dt = vf.run_driver(["retry", "-out", pre, "-seed", str(ctx.seed), "-tier", ctx.tier] + ck.driver_flags())
    ctx.timings["retry"] = round(dt, 2)
    ctx.extra["driver_counts"] = [l for l in out.split("\n") if l.startswith("retry: ")]
    ctx.correspondence("retry: respondError on arbitrary retry-cookie values, browser-followed redirect chains, rate-limit windows on the fake clock "
                       "(real router + net/http/cookiejar) vs Model/Cookie.v, Jar.v, Retry.v incl. the abstract machines used by the theorems",
                       pre + ".in", pre + ".impl")
    nt = monitor_chains(ctx, pre + ".in", pre + ".impl")
    nt += monitor_ratelimit(ctx, pre + ".in", pre + ".impl")
    nt += monitor_request_target_forms(ctx)
    ctx.nontrivial += nt
    with open(pre + ".in") as fi, open(pre + ".impl") as fo:
        for i, (a, b) in enumerate(zip(fi, fo)):
            if a.startswith("cscript ") and i % 53 == 0 and len(ctx.samples) < 6:
                sc = ck.Script(a)
                res = ck.parse_output(b, sc)
                ctx.samples.append({"config": sc.cfg.describe(), "history": [ck.describe_item(sc, it) for it in sc.items],
                                    "impl_and_model": [r.get("chain", r.get("status")) for r in res]})
    ctx.rule = ("retry cookie values: exhaustive over {0,1,2,3,9,-,+,a} up to length 3 + int boundaries + random numerals, x status {401,500,429}; "
                "chains: failure cause (provider refuses PAR at login, missing login cookie / bad state, provider error at callback, all mixed, random; "
                "and per endpoint the CAUSES 5xx for the whole retry budget, undecodable body, endpoint never answering until the client's timeout, request context "
                "cancelled meanwhile, connection refused - PAR endpoint at login, token endpoint at the callback - and session-store failure plain / with a deadline "
                "error / with a cancellation - callback, logout, local logout -, persistent, alternating with successes, mixed and random) "
                "x ingress prefix {'', /app, nested root + /app, nested /a + /a/b, three levels, look-alike /o} x mode {standalone, SSO server (root, prefix, nested)} x scheme, counter-reset scenarios; "
                "NESTED ingress paths on one host: histories that leave a stale counter on the less specific path (a failed request whose automatic retry succeeded, the login abandoned "
                "at the provider; one and two failures; any cause) followed by persistent failures of login / callback / logout / local logout under the more specific path - the browser "
                "then sends two counters per request, longest Path first -, also with a session and across a complete login under the nested path; "
                "rate limit: enabled x logins {0,1,5} x window {1s,5s,0.5s,1.5s} x gaps {0,1ns,w/2,w-1ns,w,w+1ns,1s} with/without session, x cookie-name configurations as main.go derives them (default, custom cookie.prefix, SSO mode with sso.session-cookie-name; package variables set and restored around each configuration); chains also under a custom prefix; request-target forms (wwh retryloc: absolute-form for the ingress / a foreign host, scheme-only, foreign Host header, x X-Forwarded-Host) x endpoint x failure cause, retries followed; "
                "distinct_nontrivial counts distinct status chains per configuration plus distinct (logins, window, expectation, count) states")
    ctx.assumptions += [
        "failure causes injected through the router: provider refusing the pushed authorization request (login), missing login cookie, bad state, "
        "provider error at the callback, request on a host without ingress; PAR / token endpoint answering 5xx, garbage, nothing at all (client timeout on the "
        "fake clock) or refusing the connection; request context cancelled while the provider hangs (the response wonderwall writes is taken as delivered); "
        "session-store operations failing (plain error, deadline error, cancellation) at callback, logout and local logout (in-memory store behind the harness wrapper)",
        "a browser that keeps cookies = net/http/cookiejar semantics; hand-edited negative counters are outside the property (bounded by |n|+3, proved)",
        "the logincount Max-Age is modelled with integer arithmetic on nanoseconds (truncation, or ceiling with code flag ratelimit_ceil) instead of float64 seconds: exact for windows below 2^22 s",
        "Max-Age counts whole seconds: the monitor requires the counter to survive until the window has passed and to be gone once the window rounded up to a whole second has passed; in between (< 1 s) both answers are admissible",
        "code variants followed by the model: lib/code_flags.json ingress_segment_prefix, ratelimit_ceil (passed to the drivers as -seg-prefix / -rl-ceil and to the model with every configuration)",
    ]
