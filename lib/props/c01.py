"""C01 — decided on the session machine."""
from lib.props import _mach


def run(ctx):
    _mach.run_modes(ctx, ['history', 'faults', 'conc'], ['c01'])
