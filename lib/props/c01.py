"""C01 — decided on the session machine, plus a store that keeps entries beyond the session's deadlines."""
import json

from lib import vf
from lib.machine import authenticated
from lib.props import _mach


def run(ctx):
    _mach.run_modes(ctx, ['history', 'faults', 'conc'], ['c01'])
    # "a token only for a session that ... had not ended / timed out": in the machine an entry expires exactly at the session's end, so
    # there the store, not the validation, keeps ended sessions out. Here the store keeps the entry (lagging expiry / clock skew): no
    # request of any mode may then be forwarded with that session's token.
    pre = ctx.path("storelag")
    out, dt = vf.run_driver(["storelag", "-out", pre, "-seed", str(ctx.seed), "-tier", ctx.tier])
    ctx.timings["storelag"] = round(dt, 2)
    n = 0
    for line in open(pre + ".obs"):
        d = json.loads(line)
        n += 1
        if not d["entry_still_in_store"] or d["endpoint"] not in ("p", "sp", "f"):
            continue
        o = d["outcome"]
        if authenticated(o) or (d["endpoint"] == "f" and o[:2] == [2, 204]):
            ctx.violation("c01-token-for-ended-session" if d["after"].startswith("end") else "c01-token-for-inactive-session",
                          "a request was forwarded with the token of a session that had %s (the store still holds its entry)"
                          % ("ended" if d["after"].startswith("end") else "passed its inactivity deadline"), d)
    ctx.evals += n
    ctx.nontrivial += n
    ctx.extra["lagging_store_requests"] = n
    ctx.rule += "; plus %d requests against a store that keeps the entry beyond the session's end / inactivity deadline" % n
