"""C15 — owned endpoints are never proxied, refuse scripted fetches, return no tokens, are marked
non-cacheable; the error page reproduces request-supplied text only escaped.

Correspondence: `wwh router` (real pkg/router.New on chi with recording handlers; route table dump),
`wwh htmlesc` (real templates.ExecError), both against the extracted Coq model.
Monitors (written from the property text, on the implementation's observations only):
router sweep, end-to-end sweep through the real handlers (`wwh owned`), rendered error pages.

Stable violation keys:
  c15-escaped-owned-path-proxied            decoded path under <prefix>/oauth2, raw (percent-encoded) path is not: catch-all handler
  c15-owned-path-proxied                    request under <prefix>/oauth2 reached the catch-all / the upstream RoundTripper
  c15-unknown-method-405-not-nocache        chi's top-level 405 for a method outside its table carries no no-cache headers
  c15-owned-response-not-nocache            any other wonderwall-generated response under <prefix>/oauth2 without no-cache headers
  c15-ssoproxy-gateway-error-not-nocache    SSO proxy: 502/499 for a relayed session endpoint (headers were removed before relaying)
  c15-interactive-handler-ran-for-non-navigation / c15-interactive-non-navigation-not-401
  c15-token-in-owned-response               minted access / refresh / ID token in a header or body of an owned response
  c15-legacy-cookie-carries-access-token    legacy-cookie=true: the login callback sets the access token as a cookie
  c15-session-endpoint-not-metadata-only    session endpoint body differs from the documented metadata object
  c15-error-page-unescaped                  error page reproduces request-supplied text unescaped / as a script-capable link"""
import html
import html.parser
import json
import os
import re

from lib import vf

WILDCARD = 13
INTERACTIVE = {1, 2, 3, 4}  # login, login callback, logout, logout callback


def unhex(tok):
    return b"" if tok in ("-", ".") else bytes.fromhex(tok)


def unlist(tok):
    return [] if tok == "." else [unhex(x) for x in tok.split(",")]


def configured_prefixes(tok):
    """the path prefixes of the CONFIGURED ingresses ("<hex scheme://host>/<hex path>" joined by ','): "every ingress prefix" of
    the property text - each configured ingress path, trailing slashes dropped; letter case matters in a path"""
    out = []
    for x in ([] if tok == "." else tok.split(",")):
        _, ph = x.split("/")
        q = unhex(ph).rstrip(b"/")
        if q not in out:
            out.append(q)
    return out


def under_owned(prefixes, path):
    """property text: the path lies under an ingress prefix's /oauth2 subtree"""
    for p in prefixes:
        q = p + b"/oauth2"
        if path == q or path.startswith(q + b"/"):
            return True
    return False


def pct_decode(raw):
    out, i = bytearray(), 0
    while i < len(raw):
        if raw[i] == 0x25:
            try:
                out.append(int(raw[i + 1:i + 3].decode("ascii"), 16) if len(raw[i + 1:i + 3]) == 2 else 1 // 0)
            except Exception:
                return None
            i += 3
        else:
            out.append(raw[i])
            i += 1
    return bytes(out)


def is_navigation(method, mode, dest, accepts):
    """property text / docs: recognisably a top-level navigation"""
    if method != b"GET":
        return False
    if mode == b"" and dest == b"":
        for hv in accepts:
            for v in hv.split(b","):
                try:
                    t = v.decode("utf-8", "replace").lower().strip().split(";")[0]
                except Exception:
                    t = ""
                if t == "text/html":
                    return True
        return False
    return mode == b"navigate" and dest == b"document"


def monitor_router(ctx, infile, implfile):
    sig = set()
    n = 0
    with open(infile) as fi, open(implfile) as fo:
        for li, lo in zip(fi, fo):
            t = li.split()
            if t[0] != "rtroute":
                continue
            n += 1
            mode, prefixes = int(t[1]), configured_prefixes(t[3])
            method, raw, path = unhex(t[4]), unhex(t[5]), unhex(t[6])
            hmode, hdest, accepts, acrm = unhex(t[7]), unhex(t[8]), unlist(t[9]), unhex(t[10])
            hit, status, nocache, _ = [int(x) for x in lo.split()]
            owned = under_owned(prefixes, path)
            if raw and pct_decode(raw) != path:
                continue  # synthetic pair (URL.Path / URL.RawPath set by hand, unrelated): correspondence only
            case = {"mode": ["standalone", "sso-server", "sso-proxy"][mode], "ingress_prefixes": [p.decode("latin1") for p in prefixes],
                    "method": method.decode("latin1"), "url_path": path.decode("latin1"), "url_rawpath": raw.decode("latin1"),
                    "sec_fetch_mode": hmode.decode("latin1"), "sec_fetch_dest": hdest.decode("latin1"),
                    "accept": [a.decode("latin1") for a in accepts], "observed": {"handler": hit, "status": status, "nocache": nocache},
                    "input": li.strip()}
            if owned:
                sig.add((mode, hit, status, nocache, bool(raw), method in (b"GET", b"HEAD", b"POST", b"OPTIONS")))
                # 1. never forwarded: the catch-all handler (the reverse proxy in standalone / proxy mode) must not run
                if hit == WILDCARD:
                    if raw and raw != path:
                        ctx.violation("c15-escaped-owned-path-proxied",
                                      "request whose decoded path lies under <prefix>/oauth2 is routed to the catch-all handler "
                                      "(reverse proxy to the upstream; SSO server: default redirect) because chi routes on the raw, "
                                      "percent-encoded path", case)
                    else:
                        ctx.violation("c15-owned-path-proxied", "request under <prefix>/oauth2 routed to the catch-all proxy handler", case)
                # 4. every response generated there is marked non-cacheable
                elif not nocache:
                    if method not in (b"GET", b"HEAD", b"POST", b"PUT", b"DELETE", b"OPTIONS", b"PATCH", b"TRACE", b"CONNECT"):
                        ctx.violation("c15-unknown-method-405-not-nocache",
                                      "response generated under <prefix>/oauth2 for a non-standard method lacks the no-cache headers", case)
                    else:
                        ctx.violation("c15-owned-response-not-nocache", "response generated under <prefix>/oauth2 lacks the no-cache headers", case)
            # 2. interactive endpoints: browser request recognisably not a navigation -> 401, handler must not run
            if hmode and hdest and not is_navigation(method, hmode, hdest, accepts):
                if hit in INTERACTIVE:
                    ctx.violation("c15-interactive-handler-ran-for-non-navigation",
                                  "login/logout/callback handler ran for a request with fetch metadata that is not a navigation", case)
                if owned and method in (b"GET", b"HEAD") and not raw:
                    for p in prefixes:
                        if path in (p + b"/oauth2/login", p + b"/oauth2/logout", p + b"/oauth2/callback", p + b"/oauth2/logout/callback") \
                                and (method == b"GET" or not path.endswith(b"callback")) and status != 401:
                            ctx.violation("c15-interactive-non-navigation-not-401",
                                          "interactive endpoint did not answer 401 to a non-navigational browser request", case)
    return n, len(sig)



# ---------------------------------------------------------------- end-to-end sweep (real handlers)

TOKEN_RE = re.compile(rb"(?<![A-Za-z0-9_-])((?:at|rt)-[0-9]+)(?![0-9])")
META_SCHEMA = {"session": {"created_at", "ends_at", "timeout_at", "ends_in_seconds", "active", "timeout_in_seconds"},
               "tokens": {"expire_at", "refreshed_at", "expire_in_seconds", "next_auto_refresh_in_seconds",
                          "refresh_cooldown", "refresh_cooldown_seconds"}}
STD_METHODS = {"GET", "HEAD", "POST", "PUT", "DELETE", "OPTIONS", "PATCH", "TRACE", "CONNECT"}


def marked_non_cacheable(headers):
    cc = ",".join(headers.get("Cache-Control", [])).lower()
    return "no-store" in cc or "no-cache" in cc


def find_tokens(blob, minted, id_tokens):
    found = []
    for m in TOKEN_RE.finditer(blob):
        if m.group(1).decode() in minted:
            found.append(m.group(1).decode())
    for t in id_tokens:
        if t.encode() in blob:
            found.append("id_token:" + t[:24] + "...")
        else:
            # the signature or payload part on its own would be a leak as well
            parts = t.split(".")
            if len(parts) == 3 and (parts[1].encode() in blob or parts[2].encode() in blob):
                found.append("id_token_part:" + t[:24] + "...")
    return found


def monitor_owned(ctx, path):
    from urllib.parse import urlsplit, parse_qsl, urlencode
    minted, idtoks = {}, {}
    n_owned, sig = 0, set()
    stats = {"responses": 0, "owned": 0, "token_scans": 0, "logout_hint_exemptions": 0, "error_pages": 0, "metadata_bodies": 0}
    with open(path) as f:
        for line in f:
            r = json.loads(line)
            if "tokens_scenario" in r:
                minted[r["tokens_scenario"]] = set(r["minted_tokens"] or [])
                idtoks[r["tokens_scenario"]] = list(r["minted_id_tokens"] or [])
                continue
            stats["responses"] += 1
            sc = r["scenario"]
            prefixes = [p.encode() for p in r["prefixes"]]
            upath = r["path"].encode("utf-8", "surrogateescape")
            owned = under_owned(prefixes, upath)
            if not owned:
                continue
            stats["owned"] += 1
            body = bytes.fromhex(r["body_hex"]) if r["body_hex"] != "-" else b""
            headers = r["headers"] or {}
            case = {k: r[k] for k in ("scenario", "mode", "prefixes", "state", "method", "target", "path", "rawpath", "req_headers", "status")}
            case["response_headers"] = headers
            case["body"] = body[:600].decode("latin1")
            sig.add((sc, r["state"].split("+")[0], r["method"] in ("GET", "HEAD", "POST", "OPTIONS"), r["status"], r["upstream_hit"], bool(r["rawpath"])))
            # 1. never forwarded to the upstream application
            if r["upstream_hit"]:
                if r["rawpath"] and r["rawpath"] != r["path"]:
                    ctx.violation("c15-escaped-owned-path-proxied",
                                  "request whose decoded path lies under <prefix>/oauth2 reached the upstream RoundTripper "
                                  "(chi routes on the raw, percent-encoded path)", case)
                else:
                    ctx.violation("c15-owned-path-proxied", "request under <prefix>/oauth2 reached the upstream RoundTripper", case)
                continue
            # 3. no access / refresh / ID token in any header or body
            hblob = b"\n".join((k + ": " + v).encode("utf-8", "surrogateescape") for k, vs in headers.items() for v in vs)
            exempt = hblob
            rel = upath
            for p in prefixes:
                if upath.startswith(p + b"/oauth2"):
                    rel = upath[len(p):]
            if rel == b"/oauth2/logout" and r["status"] in (302, 303, 307):
                # allowed: id_token_hint inside the redirect to the provider's end-session endpoint
                locs = headers.get("Location", [])
                kept = []
                for k, vs in headers.items():
                    for v in vs:
                        if k == "Location" and v.startswith("http://idp/endsession?"):
                            u = urlsplit(v)
                            q = [(a, b) for a, b in parse_qsl(u.query, keep_blank_values=True) if a != "id_token_hint"]
                            if len(q) != len(parse_qsl(u.query, keep_blank_values=True)):
                                stats["logout_hint_exemptions"] += 1
                            v = u._replace(query=urlencode(q)).geturl()
                        kept.append((k + ": " + v).encode("utf-8", "surrogateescape"))
                exempt = b"\n".join(kept)
                # net/http's Redirect repeats the Location as an HTML link in the body of the same response
                for v in locs:
                    if v.startswith("http://idp/endsession?") and "id_token_hint=" in v:
                        body = body.replace(v.replace("&", "&amp;").encode(), b"[location]")
            stats["token_scans"] += 1
            leaked = find_tokens(exempt + b"\n\n" + body, minted.get(sc, set()), idtoks.get(sc, []))
            if leaked:
                case["tokens_found"] = leaked
                key = "c15-token-in-owned-response"
                if any("loginservice" in v or "selvbetjening" in v for v in headers.get("Set-Cookie", [])) and "legacy" in sc:
                    key = "c15-legacy-cookie-carries-access-token"
                what = "a minted access / refresh / ID token appears in a response of an owned endpoint"
                if key == "c15-legacy-cookie-carries-access-token":
                    what = ("legacy-cookie enabled: the login callback's response sets the raw access token as the "
                            "'selvbetjening-idtoken' cookie (a token in a header of an owned endpoint)")
                ctx.violation(key, what, case)
            # 4. generated by wonderwall itself there -> marked non-cacheable (responses relayed from the SSO server carry its marks)
            if not marked_non_cacheable(headers):
                if r["rawpath"] and r["rawpath"] != r["path"] and r["method"] in STD_METHODS and r["status"] not in (404, 405):
                    ctx.violation("c15-escaped-owned-path-proxied",
                                  "request whose decoded path lies under <prefix>/oauth2 is answered by the catch-all handler "
                                  "(SSO server: default redirect, not marked non-cacheable) because chi routes on the raw, percent-encoded path", case)
                elif r["method"] not in STD_METHODS:
                    ctx.violation("c15-unknown-method-405-not-nocache",
                                  "response generated under <prefix>/oauth2 for a non-standard method lacks the no-cache headers", case)
                elif r["mode"] == "sso-proxy" and r["status"] in (502, 499):
                    ctx.violation("c15-ssoproxy-gateway-error-not-nocache",
                                  "SSO proxy: gateway error generated for a session-management endpoint lacks the no-cache headers", case)
                else:
                    ctx.violation("c15-owned-response-not-nocache", "response generated under <prefix>/oauth2 lacks the no-cache headers", case)
            # 2. interactive endpoints: browser request that is recognisably not a navigation -> 401, no redirect
            rh = {k.lower(): v for k, v in (r["req_headers"] or {}).items()}
            hmode, hdest = rh.get("sec-fetch-mode", "").encode(), rh.get("sec-fetch-dest", "").encode()
            acc = [rh["accept"].encode()] if "accept" in rh else []
            if rel in (b"/oauth2/login", b"/oauth2/logout", b"/oauth2/callback", b"/oauth2/logout/callback") and not r["rawpath"] \
                    and hmode and hdest and not is_navigation(r["method"].encode(), hmode, hdest, acc):
                registered = r["method"] == "GET" or (r["method"] == "HEAD" and rel in (b"/oauth2/login", b"/oauth2/logout"))
                if headers.get("Location") or (registered and r["status"] != 401):
                    ctx.violation("c15-interactive-non-navigation-not-401",
                                  "interactive endpoint answered a non-navigational browser request with something other than 401", case)
            # session endpoints: lifetime metadata only
            ctype = ",".join(headers.get("Content-Type", []))
            if rel in (b"/oauth2/session", b"/oauth2/session/", b"/oauth2/session/refresh") and r["status"] == 200 and r["method"] != "OPTIONS":
                stats["metadata_bodies"] += 1
                try:
                    doc = json.loads(body)
                    ok = set(doc) == set(META_SCHEMA) and all(set(doc[k]) == META_SCHEMA[k] for k in META_SCHEMA) and \
                        all(isinstance(v, (int, bool, str)) for k in doc for v in doc[k].values())
                except Exception:
                    ok = False
                if not ok:
                    ctx.violation("c15-session-endpoint-not-metadata-only", "session endpoint body is not exactly the documented lifetime metadata", case)
            # error page: request-supplied text only escaped
            if b"<!DOCTYPE html>" in body:
                stats["error_pages"] += 1
                bad = check_page(body, None)
                if bad or b"<script>alert(1)" in body:
                    case["page_problem"] = bad or "request-supplied markup reproduced verbatim"
                    ctx.violation("c15-error-page-unescaped", "error page reproduces request-supplied text unescaped or as a script-capable link", case)
    ctx.extra["owned_sweep"] = stats
    return stats["owned"], len(sig)


# ---------------------------------------------------------------- rendered error pages

class _Page(html.parser.HTMLParser):
    def __init__(self):
        super().__init__(convert_charrefs=True)
        self.tags, self.hrefs, self.attrs, self.text_in, self.cur = [], [], [], {}, []

    def handle_starttag(self, tag, attrs):
        self.tags.append(tag)
        self.cur.append(tag)
        for k, v in attrs:
            self.attrs.append((tag, k))
            if k == "href":
                self.hrefs.append(v or "")

    def handle_endtag(self, tag):
        if tag in self.cur:
            while self.cur and self.cur.pop() != tag:
                pass

    def handle_data(self, data):
        key = "/".join(self.cur)
        self.text_in[key] = self.text_in.get(key, "") + data


def browser_scheme(href):
    """scheme as a browser's URL parser sees it: strip leading C0/space, drop tab/newline, ALPHA *(ALPHA/DIGIT/+/-/.) ':'"""
    h = href.lstrip("".join(chr(i) for i in range(0x21)))
    h = h.replace("\t", "").replace("\n", "").replace("\r", "")
    m = re.match(r"^([A-Za-z][A-Za-z0-9+.\-]*):", h)
    return m.group(1).lower() if m else None


_BASELINE = {}


def check_page(page, expect):
    """Returns a description of what is wrong with a rendered error page, or None.
    expect = (correlation id, [hrefs in document order]) as supplied to the template, or None."""
    try:
        text = page.decode("utf-8", "surrogateescape")
    except Exception:
        text = page.decode("latin1")
    p = _Page()
    p.feed(text)
    p.close()
    # structure: exactly the template's own elements and attributes
    skel = (tuple(p.tags), tuple(p.attrs))
    n_a = p.tags.count("a")
    base = _BASELINE.setdefault(n_a, skel)
    if skel != base:
        return "markup structure differs from the template's (injected element or attribute)"
    if "script" in p.tags or any(k.lower().startswith("on") for _, k in p.attrs):
        return "script element or event-handler attribute"
    for h in p.hrefs:
        sch = browser_scheme(h)
        if sch is not None and sch not in ("http", "https", "mailto"):
            return "href with scheme %r" % sch
    if expect is not None:
        cid, hrefs = expect
        # the text node shows the correlation id as data (NUL is shown as U+FFFD)
        shown = "".join(v for k, v in p.text_in.items() if k.endswith("p"))
        want = cid.decode("utf-8", "surrogateescape").replace("\x00", "�")
        norm = lambda s: re.sub(r"\s+", " ", s.replace("\r", "\n")).strip()
        if norm("ID: " + want) not in norm(shown):
            return "correlation id not reproduced as text"
        if len(p.hrefs) != len(hrefs):
            return "number of links differs"
    return None


def monitor_pages(ctx, path):
    n, bad_n = 0, 0
    kinds = set()
    with open(path) as f:
        for line in f:
            r = json.loads(line)
            n += 1
            page = unhex(r["page"])
            cid, retry, deflt = unhex(r["id"]), unhex(r["retry"]), unhex(r["default"])
            hrefs = [deflt] if r["status"] == 400 else [retry, deflt]
            why = check_page(page, (cid, hrefs))
            for h in hrefs:
                m = re.match(rb"^[\x00-\x20]*([A-Za-z][A-Za-z0-9+.\-]*):", h)
                kinds.add((m.group(1).lower() if m else None, b"<" in cid, b'"' in h, b"\x00" in cid))
            if why:
                bad_n += 1
                ctx.violation("c15-error-page-unescaped", "error page reproduces request-supplied text unescaped or as a script-capable link: " + why,
                              {"correlation_id": cid.decode("latin1"), "retry_uri": retry.decode("latin1"),
                               "default_redirect_uri": deflt.decode("latin1"), "status": r["status"], "page_tail": page[-700:].decode("latin1")})
    return n, len(kinds)


def run(ctx):
    pre2 = ctx.path("htmlesc")
    out2, dt = vf.run_driver(["htmlesc", "-out", pre2, "-seed", str(ctx.seed), "-tier", ctx.tier])
    ctx.timings["htmlesc"] = round(dt, 2)
    ctx.correspondence("htmlesc: real templates.ExecError (html/template) rendered regions for CorrelationID / RetryURI / DefaultRedirectURI "
                       "vs Model/HtmlEsc.v, byte for byte", pre2 + ".in", pre2 + ".impl")
    npages, nk = monitor_pages(ctx, pre2 + ".pages")
    ctx.nontrivial += nk
    ctx.extra["htmlesc_driver"] = out2.strip().split("\n")[-1]
    ctx.extra["error_pages_parsed"] = npages
    with open(pre2 + ".in") as fi, open(pre2 + ".impl") as fo:
        for i, (a, b) in enumerate(zip(fi, fo)):
            if i % 9001 == 600:
                ctx.samples.append({"input": a.strip()[:200], "impl_and_model": b.strip()[:200]})

    pre3 = ctx.path("owned")
    out3, dt = vf.run_driver(["owned", "-out", pre3, "-seed", str(ctx.seed), "-tier", ctx.tier])
    ctx.timings["owned"] = round(dt, 2)
    no, ns = monitor_owned(ctx, pre3 + ".jsonl")
    ctx.nontrivial += ns
    ctx.evals += no
    ctx.extra["owned_driver"] = out3.strip().split("\n")[-1]

    pre = ctx.path("router")
    out, dt = vf.run_driver(["router", "-out", pre, "-seed", str(ctx.seed), "-tier", ctx.tier])
    ctx.timings["router"] = round(dt, 2)
    ctx.correspondence("router: real pkg/router.New on chi (recording handlers), chi.Walk route table, net/url path unescape, "
                       "internal/http request classification vs Model/Router.v", pre + ".in", pre + ".impl")
    n, nt = monitor_router(ctx, pre + ".in", pre + ".impl")
    ctx.nontrivial += nt
    with open(pre + ".in") as fi, open(pre + ".impl") as fo:
        for i, (a, b) in enumerate(zip(fi, fo)):
            if i % 60001 == 17:
                ctx.samples.append({"input": a.strip()[:300], "impl_and_model": b.strip()[:300]})
    ctx.extra["router_driver"] = out.strip().split("\n")[-1]

    ctx.rule = ("router: methods {GET,HEAD,POST,PUT,DELETE,OPTIONS,PATCH,TRACE,CONNECT,FOO} x paths over segments "
                "{oauth2,login,logout,callback,local,frontchannel,session,refresh,forwardauth,ping,x,'',..,%2F,%6Fauth2,oauth2%2Fsession,sess%69on,...} "
                "to depth 3 (depth 4 below the mount) x bases {'',/other,each prefix} x 14 fixed configurations (standalone / sso server / sso proxy, "
                "idporten, OpenTelemetry on, prefix sets incl. nested) + 24 random prefix sets (depth 2) + 12 fixed and 12 random ingress LISTS as an operator may write them (paths differing only in letter case, hosts differing only in case, trailing slashes, duplicates, nested, same path on two hosts; requests aimed at the CONFIGURED prefixes, ParseIngresses compared with the model, kind rtingress); header sweep Sec-Fetch-Mode x Sec-Fetch-Dest x Accept x method x preflight; "
                "random routing keys set directly; random request targets through net/http's request-line parser; "
                "distinct_nontrivial counts distinct (mode, handler, status, nocache, raw-path?, method class) signatures under owned paths; "
                "htmlesc: all single bytes, all triples over 20 special characters, scheme case/fold variants, structured random and raw random "
                "values in all three template positions; owned: 6 stack configurations (memory / redis, prefix, ID-token forwarding, inactivity, PAR, SSO server, login rate limit, legacy cookie) + SSO proxy (server up / down) x session states "
                "{none, garbage, undecryptable, valid, token expired, refreshed, after front-channel / local / full logout, ended} x "
                "every owned endpoint x 9 methods x 4 header sets, escaped spellings, absolute-form / scheme-only request targets; a standalone deployment with case-variant / duplicate / nested ingress paths swept under every configured prefix; responses scanned for every token the fake provider minted")
    ctx.assumptions += [
        "chi's radix tree is abstracted to a flat table (exact match first, else longest catch-all prefix); the abstraction is "
        "tied to chi v5.2.1 only by the differential sweep and the chi.Walk table comparison",
        "ingress path prefixes contain no chi pattern metacharacters ({ } *)",
        "strings.ToLower in Accepts is modelled on ASCII (no non-ASCII rune lower-cases to a byte of 'text/html')",
        "OpenTelemetry middlewares are not modelled; two swept configurations enable them (routing and headers unaffected)",
        "part 3 (no token in owned responses) is established by the end-to-end sweep only, not by a theorem",
    ]
