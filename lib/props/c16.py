"""C16 — SSO proxy is a read-only delegate; SSO server trusts only its own domain.

Clause 2 (server CORS) : `wwh cors` drives the real router of an SSO-server instance (real rs/cors) and is
                         compared with Model/Cors.v; the monitor below reads the property off the response headers.
Clause 1 (proxy)       : histories on the session machine against a server and a proxy sharing one store; the
                         monitor (lib/monitors.py c16) checks that the proxy issues only store reads.
                         "passing a redirect confined to its own ingress": `wwh spxredirect` sends hostile redirect
                         parameters (configuration-derived near misses, nearmiss.go) to /oauth2/login and /oauth2/logout of
                         real SSO-proxy handlers behind the real router; model Model/Redirect.v (spx_login_handover),
                         theorems c16_proxy_*_handover*, monitor lib/props/_spx.py.
Clause 3 (server)      : cookie Domain and the wildcard route are observed by `wwh cors` per configured domain;
                         the wildcard route is also part of the machine histories (kind p with sso on).
                         "scopes its cookies to that domain": `wwh ssocookies` - browser histories of SSO deployments (the SSO
                         server alone and with a real SSO proxy in front of an application): every endpoint, consecutive failures
                         of every endpoint by every cause request by request, browser-followed retry chains, logins and logouts
                         in between; every Set-Cookie header of every answer and the jar after every step; model Model/Cookie.v +
                         Jar.v + Retry.v, theorems c16_server_cookies_scoped_to_domain, c16_proxy_relays_only_domain_scoped_cookies.
"""
import binascii
import json
import re

from lib import vf
from lib.props import _mach, _spx

# what a browser can put into an Origin header (RFC 6454 serialisation of a tuple origin):
# lower-case scheme "://" lower-case host (reg-name, IPv4 or bracketed IPv6) [":" port]
BROWSER_ORIGIN = re.compile(r"^([a-z][a-z0-9+.-]*)://([a-z0-9._-]+|\[[0-9a-f:.]+\])(:[0-9]+)?$")
# SSO domain spellings the property quantifies over: a DNS name, any letter case, with or without a leading dot
DNS_NAME = re.compile(r"^\.?[A-Za-z0-9]([A-Za-z0-9-]*[A-Za-z0-9])?(\.[A-Za-z0-9]([A-Za-z0-9-]*[A-Za-z0-9])?)*\.?$")

# pkg/router/router.go: cors(GET, HEAD) on the login/logout group, cors(GET, POST) on the session routes.
# "its login, logout and session endpoints" as paths (below the ingress path prefix):
def registered_methods(pfx, path):
    if not path.startswith(pfx):
        return ()
    rest = path[len(pfx):]
    if rest in ("/oauth2/login", "/oauth2/logout", "/oauth2/callback", "/oauth2/logout/callback"):
        return ("GET", "HEAD")
    if rest == "/oauth2/session" or rest.startswith("/oauth2/session/"):
        return ("GET", "POST")
    return ()


def unhex(t):
    return "" if t == "-" else binascii.unhexlify(t).decode("latin1")


def hdr(t):
    return None if t == "~" else [unhex(x) for x in t.split(",")]


def first(h):
    return h[0] if h else ""


def normal_domain(d):
    """The domain as the property means it: without the optional leading dot, compared case-insensitively."""
    return (d[1:] if d.startswith(".") else d).lower()


def monitor_cors(ctx, infile, implfile):
    stats = {"granted": 0, "granted_browser_origin": 0, "granted_unproducible_origin_string": 0, "refused_browser_origin": 0,
             "preflight_approved": 0, "out_of_scope_domain_cases": 0, "out_of_scope_domain_grants_violating": 0}
    nontrivial = set()
    samples = {}
    with open(infile) as fi, open(implfile) as fo:
        for li, lo in zip(fi, fo):
            t = li.split()
            dom, pfx, path, method = unhex(t[1]), unhex(t[2]), unhex(t[3]), unhex(t[4])
            origins, acrm = hdr(t[5]), hdr(t[6])
            vary, status, acao, acac, acam, acah = [int(x) for x in lo.split()]
            origin = first(origins)
            in_scope = bool(DNS_NAME.match(dom))
            dn = normal_domain(dom)
            case = {"sso_domain": dom, "ingress_path": pfx, "route_path": path, "method": method, "origin_header_values": origins,
                    "access_control_request_method": acrm, "input": li.strip(), "impl": lo.strip()}
            if not in_scope:
                stats["out_of_scope_domain_cases"] += 1
            granted = acao != 0 or acac != 0
            m = BROWSER_ORIGIN.match(origin)
            if not granted:
                if m:
                    stats["refused_browser_origin"] += 1
                    nontrivial.add((dom, origin, 0))
                continue
            stats["granted"] += 1
            nontrivial.add((dom, origin, 1))
            if acao != 1 or acac != 1:
                # credentials without naming exactly the requesting origin, or a wildcard / foreign origin value
                if in_scope:
                    ctx.violation("c16-cors-grant-not-origin-echo", "CORS grant does not name exactly the request's Origin with credentials 'true'", case)
            reg = registered_methods(pfx, path)
            if not reg:
                if in_scope:
                    ctx.violation("c16-cors-grant-outside-sso-endpoints", "CORS grant on an endpoint other than login, logout, session", case)
            bad = None
            if m:
                stats["granted_browser_origin"] += 1
                scheme, host, port = m.group(1), m.group(2), m.group(3)
                if scheme != "https":
                    bad = ("c16-cors-non-https-origin", "credentialed CORS access granted to a non-https origin")
                elif not (host == dn or host.endswith("." + dn)):
                    bad = ("c16-cors-foreign-host", "credentialed CORS access granted to an origin whose host is neither the SSO domain nor a sub-domain")
                elif port:
                    bad = ("c16-cors-origin-with-port", "credentialed CORS access granted to an origin with an explicit port")
            else:
                # not something a browser sends; the grant must still be explained by the domain rule read on the raw string
                stats["granted_unproducible_origin_string"] += 1
                samples.setdefault("unproducible_origin_granted", case)
                lo_ = origin.lower()
                if not (lo_.startswith("https://") and (lo_[8:] == dn or lo_.endswith("." + dn))):
                    bad = ("c16-cors-unrelated-origin-string", "credentialed CORS access granted to a string that is not https://[*.]<domain>")
            if bad:
                if in_scope:
                    ctx.violation(bad[0], bad[1], case)
                else:
                    stats["out_of_scope_domain_grants_violating"] += 1
                    samples.setdefault("out_of_scope_domain_grant", case)
            # methods: a grant on an actual request only for a registered method (rs/cors always lets OPTIONS through)
            if acam != 0:
                stats["preflight_approved"] += 1
                if method != "OPTIONS" or first(acrm) not in reg + ("OPTIONS",):
                    ctx.violation("c16-cors-preflight-unregistered-method", "preflight approved for a method that is not registered for the endpoint", case)
            elif method not in reg + ("OPTIONS",):
                ctx.violation("c16-cors-unregistered-method", "CORS grant on a request whose method is not registered for the endpoint", case)
    return stats, len(nontrivial), samples


def monitor_server(ctx, ckfile):
    n = 0
    with open(ckfile) as f:
        for line in f:
            t = line.split()
            dom, login_status, cookies, wc_status, wc_loc, up_hits = unhex(t[0]), int(t[1]), t[2], int(t[3]), unhex(t[4]), int(t[5])
            case = {"sso_domain": dom, "line": line.strip()}
            if wc_status != 302 or up_hits != 0 or wc_loc != "http://wonderwall/default":
                ctx.violation("c16-server-wildcard-not-redirect", "SSO server wildcard route did not answer 302 to the default URL / reached the upstream", case)
            if not DNS_NAME.match(dom):
                continue
            n += 1
            cs = [c.split(":") for c in cookies.split(",") if c]
            if not cs:
                ctx.violation("c16-server-no-cookie-observed", "login endpoint of the SSO server set no cookie (nothing to check)", case)
            for name, d in cs:
                if unhex(d).lower() != normal_domain(dom):
                    ctx.violation("c16-server-cookie-domain", "SSO server cookie not scoped to the SSO domain", dict(case, cookie=unhex(name), domain=unhex(d)))
    return n


def monitor_cookie_scope(ctx, infile, implfile):
    """From the property text: "An instance in SSO-server mode ... scopes its cookies to that domain". Read off the browser
    histories of `wwh ssocookies`:
      (a) every Set-Cookie header of every answer of the SSO server - successes, error answers, the n-th consecutive failure,
          whatever cookies the request carried, also when the answer reaches the browser relayed by an SSO proxy - names the
          SSO domain as Domain, with Path=/ (valid for every host and path under the domain), and carries the attributes the
          configuration asks for (HttpOnly, Secure as configured, a SameSite attribute, None only if configured);
      (b) in the browser: whatever the jar returns to the SSO server's host it returns to a sibling host under the SSO domain at
          the same path and scheme (nothing host-only, nothing under a narrower Path) - also after browser-followed retry chains,
          whose Set-Cookie headers are not recorded one by one;
      (c) after a successful login the browser holds no retry counter and no login cookie of the deployment at any URL: what was
          set with the domain scope is cleared with it."""
    from lib.props import _cookie as ck
    sigs = set()
    stats = {"histories": 0, "set_cookie_headers": 0, "relayed_by_the_sso_proxy": 0, "sibling_comparisons": 0, "successful_logins": 0,
             "answers_to_a_request_carrying_a_retry_counter": 0}
    with open(infile) as fi, open(implfile) as fo:
        for li, lo in zip(fi, fo):
            if not li.startswith(("cscript ", "cpscript ")):
                continue
            sc = ck.Script(li)
            cfg = sc.cfg
            if not cfg.sso:
                continue
            stats["histories"] += 1
            res = ck.parse_output(lo, sc)
            dom = normal_domain(cfg.domain)
            sibling = "app.example.com"
            names = {cfg.name(k): k for k in ("session", "login", "logout", "retry")}
            history = []
            counter_held = False
            for it, r in zip(sc.items, res):
                history.append(ck.describe_item(sc, it))
                case = {"config": sc.describe(), "history": list(history)}
                if it["kind"] == "R":
                    case["status"] = r["status"]
                    case["set_cookie"] = r["cookies"]
                    px = it.get("proxy", False)
                    stats["answers_to_a_request_carrying_a_retry_counter"] += counter_held
                    for c in r["cookies"]:
                        stats["set_cookie_headers"] += 1
                        stats["relayed_by_the_sso_proxy"] += px
                        sigs.add((names.get(c["name"], c["name"]), c["maxage"] < 0, it["ep"], r["status"], px, counter_held))
                        who = "relayed to the browser by the SSO proxy" if px else "sent by the SSO server"
                        if c["domain"].lower() != dom:
                            ctx.violation("c16-server-cookie-domain", "SSO server cookie not scoped to the SSO domain: a Set-Cookie header %s "
                                          "has %s instead of Domain=%s" % (who, ("Domain=" + c["domain"]) if c["domain"] else "no Domain attribute (host-only)", dom),
                                          dict(case, cookie=c))
                        elif c["path"] != "/":
                            ctx.violation("c16-server-cookie-path", "SSO server cookie scoped to the SSO domain but not with Path=/: hosts under the "
                                          "domain get it only below that path (%s)" % who, dict(case, cookie=c))
                        if not c["httponly"] or (cfg.secure and not c["secure"]) or c["samesite"] not in ("L", "S", "N") or \
                                (c["samesite"] == "N" and cfg.samesite != "None"):
                            ctx.violation("c16-server-cookie-attributes", "SSO server cookie without the attributes of the configuration "
                                          "(HttpOnly, Secure as configured, SameSite present and None only if configured) (%s)" % who, dict(case, cookie=c))
                else:
                    case["status_chain"] = r["chain"]
                # (b) the jar: same answer for the SSO server's host and for a sibling under the domain
                by = {p: cs for (p, cs) in r["probes"]}
                if sibling == dom or sibling.endswith("." + dom):
                    for (https, host, path), cs in by.items():
                        if host != sc.host or (https, sibling, path) not in by:
                            continue
                        stats["sibling_comparisons"] += 1
                        other = by[(https, sibling, path)]
                        if sorted(cs) != sorted(other):
                            url = ("https" if https else "http") + "://%s" + path
                            ctx.violation("c16-server-cookie-not-shared-with-domain",
                                          "the browser returns different cookies to the SSO server's own host and to a sibling host under the SSO "
                                          "domain: a cookie of the SSO server is host-only or scoped to a narrower path",
                                          dict(case, jar_returns={url % sc.host: cs, url % sibling: other}))
                            break
                rn = cfg.name("retry")
                counter_held = any(n == rn for cs in by.values() for (n, _) in cs)
                # (c) after a successful login
                if it["kind"] == "R" and it["ep"] == "C" and r["status"] == 302 and not it.get("proxy", False):
                    stats["successful_logins"] += 1
                    left = sorted({("https" if p[0] else "http") + "://" + p[1] + p[2] + " " + names[n] + "=" + v
                                   for (p, cs) in r["probes"] for (n, v) in cs if names.get(n) in ("retry", "login")})
                    if left:
                        ctx.violation("c16-server-cookie-outlives-login", "after a successful login the browser still holds a retry counter / login "
                                      "cookie of the SSO deployment: it was set with another scope than the one it is cleared with",
                                      dict(case, jar_still_returns=[(l.split(" ")[0], l.split(" ")[1].replace("=", " = hex ")) for l in left]))
    return stats, len(sigs)


def monitor_server_upstream(ctx, pre):
    """From the property text: "An instance in SSO-server mode ... never proxies to an upstream". Read off `wwh ssowild`: requests
    for everything an SSO server does not own (paths x methods x Sec-Fetch-Mode x Sec-Fetch-Dest x Accept x with / without a valid
    session cookie) against real SSO-server deployments whose upstream is a recording transport:
      (a) the upstream sees NOTHING, whatever the request looks like;
      (b) the answer is the redirect to the configured default URL (GET / : to the server's own login endpoint; a method the router
          does not know: 405) - an SSO server has nothing else to offer there.
    Control of the observation point: the same requests at a standalone instance DO reach the recording upstream."""
    st = {"sso_server_requests": 0, "with_fetch_metadata_not_a_navigation": 0, "with_valid_session_cookie": 0, "methods": set(), "paths": set(),
          "control_requests_reaching_upstream": 0, "control_requests": 0}
    sigs = set()
    with open(pre + ".in") as fi, open(pre + ".impl") as fo, open(pre + ".obs") as fb:
        for li, lo, lb in zip(fi, fo, fb):
            t = li.split()
            mode, default, method, path, hmode, hdest = int(t[1]), unhex(t[3]), unhex(t[4]), unhex(t[6]), unhex(t[7]), unhex(t[8])
            accepts = [] if t[9] == "." else [unhex(x) for x in t[9].split(",")]
            session = t[10] == "1"
            o = lo.split()
            status, loc, hits = int(o[1]), unhex(o[2]), int(o[3])
            b = lb.split()
            if mode != 1:
                st["control_requests"] += 1
                st["control_requests_reaching_upstream"] += hits > 0
                continue
            st["sso_server_requests"] += 1
            st["with_valid_session_cookie"] += session
            st["methods"].add(method)
            st["paths"].add(path)
            nonnav = bool(hmode and hdest) and not (method == "GET" and hmode == "navigate" and hdest == "document")
            st["with_fetch_metadata_not_a_navigation"] += nonnav
            sigs.add((method, path, hmode, hdest, tuple(accepts), session))
            case = {"deployment": {"mode": "sso-server", "name": b[0], "session_store": b[2].split("=")[1], "session.forward-auth": b[3].endswith("1"),
                                   "ingresses": [unhex(x.split("/")[0]) + unhex(x.split("/")[1]) for x in t[2].split(",")],
                                   "sso.server-default-redirect-url": default},
                    "request": {"method": method, "path": path, "Sec-Fetch-Mode": hmode or None, "Sec-Fetch-Dest": hdest or None, "Accept": accepts,
                                "carries_valid_session_cookie": session},
                    "answer": {"status": status, "location": loc or None},
                    "requests_seen_by_the_upstream": hits, "upstream_request_carried_a_bearer_token": b[1].endswith("1"),
                    "input": li.strip(), "impl": lo.strip()}
            if hits > 0:
                if b[1].endswith("1"):
                    ctx.violation("c16-server-request-reaches-upstream-with-token", "an instance in SSO-server mode proxied a request to the upstream "
                                  "with the bearer token of the session", case)
                else:
                    ctx.violation("c16-server-request-reaches-upstream", "an instance in SSO-server mode proxied a request to the upstream", case)
            elif method == "BREW":
                if status != 405:
                    ctx.violation("c16-server-wildcard-not-redirect", "SSO server: unknown method not answered 405", case)
            elif method == "GET" and path == "/":
                if status != 302 or loc != "/oauth2/login":
                    ctx.violation("c16-server-wildcard-not-redirect", "SSO server: GET / not answered with the redirect to its login endpoint", case)
            elif status != 302 or loc != default:
                ctx.violation("c16-server-wildcard-not-redirect", "SSO server: a request outside its own endpoints was not answered with the "
                              "redirect to the configured default URL", case)
    st["methods"], st["paths"] = sorted(st["methods"]), len(st["paths"])
    return st, len(sigs)


PROXY_INGRESS = ("http", "proxy.wonderwall")
SERVER_URL = ("http", "wonderwall")
FORWARDED = {"/oauth2/session", "/oauth2/session/refresh", "/oauth2/session/forwardauth", "/oauth2/logout/local", "/oauth2/logout/frontchannel"}


def monitor_proxy(ctx, jsonl):
    """Clause 1 on every endpoint of the real SSO-proxy router: only store reads, no provider contact,
    redirects only to the SSO server's login/logout with a redirect on the proxy's own ingress, forwards only
    to the SSO server with the fixed path."""
    from urllib.parse import urlsplit, parse_qs
    st = {"proxy_requests": 0, "proxy_store_reads": 0, "proxy_redirects_to_server": 0, "proxy_forwards_to_server": 0,
          "proxy_upstream_hits": 0, "server_requests": 0, "server_requests_that_wrote": 0, "server_provider_calls": 0, "ticks": 0}
    distinct = set()
    with open(jsonl) as f:
        for line in f:
            o = json.loads(line)
            if o["target"] == "tick":
                st["ticks"] += 1
                continue
            cmds = o.get("store_cmds") or []
            if o["target"] == "server":
                st["server_requests"] += 1
                st["server_requests_that_wrote"] += int(any(c != "GET" for c in cmds))
                st["server_provider_calls"] += o["idp_calls"]
                continue
            st["proxy_requests"] += 1
            u = urlsplit(o["url"])
            distinct.add((o["method"], u.path, u.query, o["cookie"].split(":")[0], o["status"], o["autologin"]))
            case = {k: o[k] for k in ("history", "seq", "method", "url", "cookie", "status", "location", "store_cmds", "idp_calls", "outgoing", "server_fwd")}
            st["proxy_store_reads"] += len(cmds)
            if any(c != "GET" for c in cmds):
                ctx.violation("c16-proxy-endpoint-mutates", "SSO proxy issued a Redis command other than GET", case)
            if o["store_changed"]:
                ctx.violation("c16-proxy-store-changed", "store or lock entries changed while the SSO proxy served a request", case)
            if o["idp_calls"] or o.get("outgoing"):
                ctx.violation("c16-proxy-contacts-provider", "SSO proxy contacted the identity provider / made an outgoing call other than to the SSO server or upstream", case)
            loc = o.get("location") or ""
            if loc:
                l = urlsplit(loc)
                if l.scheme or l.netloc:
                    if (l.scheme, l.netloc) != SERVER_URL or l.path not in ("/oauth2/login", "/oauth2/logout"):
                        ctx.violation("c16-proxy-redirect-elsewhere", "SSO proxy redirected to something other than the SSO server's login/logout endpoint", case)
                    st["proxy_redirects_to_server"] += 1
                    for r in parse_qs(l.query).get("redirect", []):
                        ru = urlsplit(r)
                        if (ru.scheme, ru.netloc) != PROXY_INGRESS:
                            ctx.violation("c16-proxy-redirect-not-confined", "redirect parameter passed to the SSO server is not on the proxy's own ingress", case)
                elif not loc.startswith("/") or loc.startswith("//") or loc.startswith("/\\"):
                    ctx.violation("c16-proxy-redirect-elsewhere", "SSO proxy answered with a relative Location that leaves its own origin", case)
                else:
                    for r in parse_qs(l.query).get("redirect", []):
                        ru = urlsplit(r)
                        if (ru.scheme or ru.netloc) and (ru.scheme, ru.netloc) != PROXY_INGRESS:
                            ctx.violation("c16-proxy-redirect-not-confined", "redirect parameter of the proxy's own login redirect is not on its ingress", case)
            for fwd in o.get("server_fwd") or []:
                m, target = fwd.split(" ", 1)
                t = urlsplit(target)
                st["proxy_forwards_to_server"] += 1
                if (t.scheme, t.netloc) != SERVER_URL or t.path != u.path or t.path not in FORWARDED or m != o["method"]:
                    ctx.violation("c16-proxy-forward-wrong-target", "SSO proxy forwarded to something other than the SSO server URL with the endpoint's fixed path", case)
            st["proxy_upstream_hits"] += o["upstream_hits"]
    return st, len(distinct)


def run_machine_sso(ctx, shards=8):
    import os
    import subprocess
    from concurrent.futures import ThreadPoolExecutor
    from lib import machine, monitors
    n = 4000 if ctx.tier == "thorough" else 240
    fl = machine.code_flags()
    args = ["machine-sso", "-n", str(n), "-seed", str(ctx.seed), "-shards", str(shards)]
    args += ["-upd-atomic"] if fl["upd_atomic"] else []
    args += ["-mem-lock"] if fl["mem_lock"] else []
    args += ["-logout-strict"] if fl["logout_strict"] else []

    def one(i):
        pre = ctx.path("machine-sso-%d" % i)
        p = subprocess.run([vf.WWH] + args + ["-shard", str(i), "-out", pre], env=vf.goenv(), stdout=subprocess.PIPE,
                           stderr=subprocess.STDOUT, text=True, timeout=3000)
        if p.returncode != 0:
            raise vf.InfraError("wwh machine-sso shard %d failed: %s" % (i, p.stdout[-3000:]))
        return pre

    import time
    t0 = time.time()
    with ThreadPoolExecutor(max_workers=shards) as ex:
        pres = list(ex.map(one, range(shards)))
    infile, implfile = ctx.path("machine-sso.in"), ctx.path("machine-sso.impl")
    with open(infile, "w") as fi, open(implfile, "w") as fo:
        for pre in pres:
            fi.write(open(pre + ".in").read())
            fo.write(open(pre + ".impl").read())
            os.remove(pre + ".in")
            os.remove(pre + ".impl")
    ctx.timings["machine-sso"] = round(time.time() - t0, 2)
    ctx.correspondence("machine/sso: SSO server + SSO proxy on one Redis store, mostly proxy requests, faults, cancellations, interleavings "
                       "vs Model/Machine.v (per-event operation, outcome, store snapshot)", infile, implfile)
    scs = list(machine.load_scenarios(infile, implfile))
    distinct = set()
    for sc in scs:
        distinct.add(sc.raw_in)
        for (key, what, extra) in monitors.c16(sc):
            ctx.violation(key, what, sc.case(extra))
    st = machine.stats(scs)
    if st.get("kind:sp", 0) == 0:
        ctx.broken.append({"kind": "harness", "name": "machine-sso produced no SSO-proxy request", "first": st})
    return st, len(distinct)


def run(ctx):
    pre = ctx.path("cors")
    out, dt = vf.run_driver(["cors", "-out", pre, "-seed", str(ctx.seed), "-tier", ctx.tier])
    ctx.timings["cors"] = round(dt, 2)
    ctx.correspondence("cors: real router of an SSO-server instance + real rs/cors vs Model/Cors.v "
                       "(Vary, preflight status, Access-Control-Allow-Origin/-Credentials/-Methods/-Headers)",
                       pre + ".in", pre + ".impl")
    stats, nt, samples = monitor_cors(ctx, pre + ".in", pre + ".impl")
    ndom = monitor_server(ctx, pre + ".cookies")
    probe = []
    with open(pre + ".probe") as f:
        for line in f:
            o, acao, acac = line.split()
            probe.append({"sso_domain": "kick.no", "origin_bytes_hex": o, "origin": binascii.unhexlify(o).decode("utf-8", "replace"),
                          "granted": acac != "-", "browser_producible": bool(BROWSER_ORIGIN.match(unhex(o)))})
            if acac != "-" and BROWSER_ORIGIN.match(unhex(o)) and not (unhex(o).startswith("https://") and unhex(o).endswith(".kick.no")):
                ctx.violation("c16-cors-foreign-host", "credentialed CORS access granted to a foreign browser origin (non-ASCII probe)", probe[-1])
    ctx.extra["non_ascii_origin_probe_outside_model"] = probe
    with open(pre + ".in") as fi, open(pre + ".impl") as fo:
        for i, (a, b) in enumerate(zip(fi, fo)):
            if i % 30011 == 0:
                ctx.samples.append({"input": a.strip(), "impl_and_model": b.strip()})
    for k, v in samples.items():
        ctx.samples.append({k: v})

    # clause 1 on every endpoint of the real SSO-proxy router (monitor only; the handlers of
    # handler_sso_proxy.go other than Wildcard have no Coq model)
    prex = ctx.path("ssoproxy")
    out, dt = vf.run_driver(["ssoproxy", "-out", prex, "-seed", str(ctx.seed), "-tier", ctx.tier])
    ctx.timings["ssoproxy"] = round(dt, 2)
    pst, pnt = monitor_proxy(ctx, prex + ".jsonl")
    ctx.evals += pst["proxy_requests"]
    ctx.extra["ssoproxy_monitor"] = pst
    if pst["server_requests_that_wrote"] == 0 or pst["proxy_store_reads"] == 0:
        ctx.broken.append({"kind": "harness", "name": "ssoproxy control: the store wrapper saw no server write / no proxy read (observation point blind)", "first": pst})
    nt += pnt

    # clause 1, "passing a redirect confined to its own ingress": hostile redirect parameters through the real router and
    # the real Login/Logout handlers of several SSO-proxy deployments (model: Model/Redirect.v; monitor: lib/props/_spx.py)
    xst, xnt = _spx.run(ctx, "C16")
    nt += xnt

    # clause 3, "scopes its cookies to that domain": browser histories of SSO deployments (server alone; server + proxy), every
    # Set-Cookie header of every answer incl. the n-th consecutive failure of every endpoint by every cause, the jar after every step
    from lib.props import _cookie as ck
    prec = ctx.path("ssocookies")
    out, dt = vf.run_driver(["ssocookies", "-out", prec, "-seed", str(ctx.seed), "-tier", ctx.tier] + ck.driver_flags())
    ctx.timings["ssocookies"] = round(dt, 2)
    ctx.extra["ssocookies_driver_counts"] = [l for l in out.split("\n") if l.startswith("ssocookies: ")]
    ctx.correspondence("ssocookies: SSO deployments (real SSO-server router; real SSO proxy in front of it, one jar for the SSO domain): Set-Cookie "
                       "headers per endpoint x outcome x n-th consecutive failure x cause, browser-followed retry chains, net/http/cookiejar "
                       "contents vs Model/Cookie.v, Jar.v, Retry.v", prec + ".in", prec + ".impl")
    cst, cnt = monitor_cookie_scope(ctx, prec + ".in", prec + ".impl")
    ctx.extra["cookie_scope_monitor"] = cst
    if cst["set_cookie_headers"] == 0 or cst["answers_to_a_request_carrying_a_retry_counter"] == 0 or cst["sibling_comparisons"] == 0:
        ctx.broken.append({"kind": "harness", "name": "ssocookies control: no Set-Cookie header / no answer to a request carrying a counter / no sibling comparison observed", "first": cst})
    nt += cnt

    # clause 3, "never proxies to an upstream": everything an SSO server does not own, x methods x Sec-Fetch / Accept lattice x session
    prew = ctx.path("ssowild")
    out, dt = vf.run_driver(["ssowild", "-out", prew, "-seed", str(ctx.seed), "-tier", ctx.tier])
    ctx.timings["ssowild"] = round(dt, 2)
    ctx.extra["ssowild_driver_counts"] = [l for l in out.split("\n") if l.startswith("ssowild: ")]
    ctx.correspondence("ssowild: real router + real handler.SSOServer (over the real Standalone with its reverse proxy; recording upstream) for requests "
                       "outside the own endpoints: answer kind, status, Location, requests seen by the upstream vs Model/SsoWild.v on Model/Router.v",
                       prew + ".in", prew + ".impl")
    wst, wnt = monitor_server_upstream(ctx, prew)
    ctx.extra["server_upstream_monitor"] = wst
    if wst["control_requests"] == 0 or wst["control_requests_reaching_upstream"] != wst["control_requests"] or \
            wst["with_fetch_metadata_not_a_navigation"] == 0 or wst["with_valid_session_cookie"] == 0:
        ctx.broken.append({"kind": "harness", "name": "ssowild control: the recording upstream did not see every proxied request of the standalone control "
                           "(observation point blind) / no non-navigational or session-carrying request", "first": wst})
    nt += wnt

    # clause 1 and the wildcard route on the session machine (server and proxy share one wrapped store)
    _mach.run_modes(ctx, ["history"], ["c16"])
    mrule = ctx.rule
    # the same machine on scenarios biased to the proxy (wwh machine-sso): sso on, shared Redis, mostly kind sp,
    # faults and cancellations, proxy reads interleaved step by step with a writing server request
    sso_stats, sso_nt = run_machine_sso(ctx)
    nt += sso_nt
    ctx.extra["machine_sso_distribution"] = sso_stats
    ctx.rule = mrule

    ctx.nontrivial += nt
    ctx.extra["cors_monitor"] = stats
    ctx.extra["cookie_domain_checked_for_domains"] = ndom
    ctx.rule = ("cors: per SSO domain spelling (DNS names with/without leading dot and mixed case; plus out-of-quantifier strings with '*', ':' and "
                "double dots that exercise the wildcard split and length guard): origins = scheme {https,http,ftp,HTTPS,Https,wss,https+x} x host "
                "{d, sub.d, deep.sub.d, evil-d, evild, d.evil.com, d%2eevil.com, upper case, trailing dot, leading dots, IPv4, [IPv6], path/fragment/userinfo "
                "look-alikes} x port {none,:443,:8443,:,:80} + scheme-less and null forms; endpoint x method x preflight-header grid on representative origins "
                "(one and two Origin values), ingress at the root and below a path prefix; exhaustive request paths from 14 segments (depth <= 3, <= 4 below /oauth2, "
                "percent-encoded and upper-case variants, trailing slashes) from an allowed origin; exhaustive strings of length <= 4 over {. : / * d0 D0} after 'https://' (and near-miss heads) for domains of length <= 3; "
                "random mutations of near-miss origins and random byte strings 0x01..0x7f; distinct_nontrivial = distinct (domain, browser-producible or granted origin, granted?) "
                "+ distinct proxy request shapes + distinct machine histories. ssoproxy: random histories of proxy requests (every endpoint x method x redirect/locale "
                "query x cookie class) interleaved with writing server requests and clock advances, on one Redis store. machine-sso: machine scenarios with sso on, "
                "mostly proxy requests, faults, cancellations, proxy steps interleaved with a writing server request. "
                "ssowild (never proxies): SSO-server deployments {ingress at the root, nested ingresses, Redis store with forward-auth; three default URLs} x paths outside the own endpoints "
                "{/, /favicon.ico, /api/..., deep paths, look-alikes of /oauth2, random segment paths} x {GET, HEAD, POST, PUT, DELETE, OPTIONS, PATCH, unknown method} x Sec-Fetch-Mode {absent, navigate, cors, same-origin, no-cors} "
                "x Sec-Fetch-Dest {absent, document, empty, iframe, image} x Accept {text/html, json, list, absent} x {no session, valid session cookie}; standalone control. "
                "ssocookies (cookie scope): SSO-server configurations {same-site Lax/None/Strict x domain with/without leading dot x legacy cookie x rate limit, ingress at the root / below a path / "
                "nested on one host, localhost} x {complete flows, error paths, random histories, the same through a real SSO proxy in front of an application, "
                "4 consecutive failures of login / callback / logout / local logout by every cause (provider 4xx, 5xx for the retry budget, undecodable, hanging until "
                "the client's timeout, request cancelled, connection refused; store failing plain / deadline / cancelled) request by request, then success; "
                "browser-followed retry chains incl. stale counters on nested paths}: every Set-Cookie header, jar probes at the server's host and a sibling host. " + _spx.RULE + ". machine: " + ctx.rule)
    ctx.assumptions += [
        "Origin, method and domain strings are ASCII (bytes < 0x80): Go's strings.ToLower is modelled by ASCII lower-casing; "
        "for non-ASCII input rs/cors applies Unicode lower-casing (e.g. U+212A KELVIN SIGN -> k), which a browser cannot put into an Origin header",
        "requests are handed to the router as http.Request values (no HTTP/1.1 wire parsing): header values that net/http's server would reject are a superset",
        "router.go is modelled for one ingress path prefix; all its patterns are static, so chi's tree matching is modelled as string comparison on the route path "
        "(URL.RawPath if set, else URL.Path, as computed by net/url for the request target); the driver reads that path off the real request",
        "the SSO-proxy handlers other than Wildcard, Login and Logout (callbacks, session forwards) have no Coq model: they are checked by the monitor on the real router only; "
        "Login/Logout are modelled for the redirect they hand over (Model/Redirect.v spx_*_handover), not for the acr/locale/prompt parameters",
        "cookie Domain is observed on the cookies set or cleared by the server's login and logout endpoints by `wwh cors` (monitor only) and on every Set-Cookie "
        "header of the browser histories of `wwh ssocookies` (model + monitor); browser = net/http/cookiejar without public-suffix list; the sibling host of the "
        "jar comparison is app.example.com (configurations whose SSO domain does not contain it, e.g. localhost, are compared on the headers only)",
        "SSO domains outside DNS-name syntax (containing '*', ':' ...) are driven through the correspondence but are outside the property's quantifier; "
        "config.SSO.Validate accepts them (see report)",
    ] + _spx.ASSUME
