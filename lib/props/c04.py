"""C04 — redirects issued by wonderwall never leave the application's allowed origins.

Correspondence: real pkg/url (validators, Canonical/Clean of the three Redirect implementations), net/url,
path.Clean and net/http.Redirect vs Model/GoUrl.v + Model/Redirect.v on generated strings; Model/Whatwg.v vs
Node's WHATWG URL implementation (oracle). Monitor (from the property text): every Location / canonical redirect
produced by the REAL code is resolved by Node's `new URL(location, requestURL)` and must stay on the ingress
origin (standalone, SSO proxy) or on an http(s) host equal to / under the SSO domain (SSO server), unless it is
the operator-configured default. The generated strings include configuration-derived near misses (nearmiss.go) of the
configured ingress / SSO domain / default redirect URL of several configurations per mode; the SSO proxy's login/logout are
also driven as real handlers behind the real router (lib/props/_spx.py)."""
import glob
import itertools
import os
import re
import subprocess
import time

from lib import vf

ORACLE = os.path.join(vf.ROOT, "oracle", "whatwg.js")
REQ_ORIGIN = b"https://wonderwall.test"     # origin of the request URL the browser resolves Location against
ALPHABET = [b"/", b"\\", b".", b"%", b"2", b"F", b"5", b"C", b"a", b":", b"@", b"?", b"#", b" ", b"\t", b"\n", b"\r", b"\v"]
# the Go regular expression, transcribed for Python's re on bytes (\s in RE2 = [\t\n\f\r ], \v = 0x0b)
PROPERTY_PAIR = re.compile(rb"[/\\](?:[\t\n\f\r \x0b]*|\.{1,2})[/\\]")


def unhex(t):
    return b"" if t == "-" else bytes.fromhex(t)


def hx(b):
    return b.hex() if b else "-"


def corpus(path):
    """String literals of /repo/pkg/url/*_test.go and the lines of testdata/open-redirects.txt."""
    seen, out = set(), []
    def add(b):
        if b not in seen and len(b) < 600:
            seen.add(b)
            out.append(b)
    for f in sorted(glob.glob(os.path.join(vf.REPO, "pkg", "url", "*_test.go"))):
        txt = open(f, encoding="utf-8", errors="surrogateescape").read()
        for m in re.finditer(r'"((?:[^"\\\n]|\\.)*)"|`([^`]*)`', txt):
            if m.group(1) is not None:
                try:
                    s = m.group(1).encode("utf-8", "surrogateescape").decode("unicode_escape").encode("latin1", "ignore")
                except Exception:
                    continue
            else:
                s = m.group(2).encode("utf-8", "surrogateescape")
            add(s)
    td = os.path.join(vf.REPO, "pkg", "url", "testdata", "open-redirects.txt")
    if os.path.exists(td):
        for line in open(td, "rb"):
            add(line.rstrip(b"\r\n"))
    with open(path, "w") as f:
        for s in out:
            f.write(hx(s) + "\n")
    return len(out)


def node_resolve(ctx, name, pairs):
    """pairs: list of (base bytes, input bytes) -> list of oracle result strings."""
    fin, fout = ctx.path(name + ".node.in"), ctx.path(name + ".node.out")
    with open(fin, "w") as f:
        for b, l in pairs:
            f.write(hx(b) + " " + hx(l) + "\n")
    t = time.time()
    with open(fin) as fi, open(fout, "w") as fo:
        p = subprocess.run(["node", ORACLE], stdin=fi, stdout=fo, stderr=subprocess.PIPE, text=True, timeout=1500)
    if p.returncode != 0:
        raise vf.InfraError("node oracle failed: " + p.stderr[-2000:])
    res = open(fout).read().split("\n")
    if res and res[-1] == "":
        res.pop()
    if len(res) != len(pairs):
        raise vf.InfraError("node oracle returned %d lines for %d inputs" % (len(res), len(pairs)))
    ctx.timings[name + "_node"] = round(time.time() - t, 2)
    return res


def parse_origin(res):
    """oracle/model line -> ('F',) | ('O', scheme) | ('T', scheme, host, port)"""
    t = res.split()
    if not t or t[0] in ("F", "46"):
        return ("F",)
    if t[0] in ("O", "4f"):
        return ("O", unhex(t[1]))
    return ("T", unhex(t[1]), unhex(t[2]), t[3] if len(t) > 3 else "-")


SIMPLE_HOST = re.compile(rb"^[a-z0-9._~!$&'()*+,;=-]+$")
NUMERIC_LAST = re.compile(rb"(^|\.)(0[xX][0-9a-fA-F]*|[0-9]+)\.?$")


def host_interpreted(h):
    """hosts for which Model/Whatwg.v claims to compute the serialised host (ASCII domain, no IDNA/IPv4/IPv6 work)"""
    return bool(SIMPLE_HOST.match(h)) and b"xn--" not in h and not NUMERIC_LAST.search(h)


def model_port(field):
    return "-" if field == "-" else str(int(field, 16))


def whatwg_validation(ctx, inputs):
    """Model/Whatwg.v (extracted) vs Node on `inputs` (bytes), base https://wonderwall.test/p/q. Custom comparison:
    hosts the model does not interpret (non-ASCII -> IDNA, IPv4 numbers, IPv6 literals) are compared on scheme and port only,
    and Node may also fail on them."""
    base = REQ_ORIGIN + b"/p/q"
    fin = ctx.path("whatwg.in")
    with open(fin, "w") as f:
        for s in inputs:
            f.write("r.whatwg %s %s 0 %s\n" % (hx(b"https"), hx(b"wonderwall.test"), hx(s)))
    fmodel = ctx.path("whatwg.model")
    t = time.time()
    vf.run_model(fin, fmodel)
    node = node_resolve(ctx, "whatwg", [(base, s) for s in inputs])
    mism = []
    n = 0
    with open(fmodel) as fm:
        for s, lm, ln in zip(inputs, fm, node):
            n += 1
            mt = lm.split()
            if mt[0] == "46":
                m = ("F",)
            elif mt[0] == "4f":
                m = ("O", unhex(mt[1]))
            elif mt[0] == "54":
                m = ("T", unhex(mt[1]), unhex(mt[2]), model_port(mt[3]) if len(mt) > 3 else "-")
            else:
                m = ("?", lm)
            o = parse_origin(ln)
            ok = (m == o)
            if not ok and m[0] == "O" and o[0] == "F":
                ok = True   # file: / non-special schemes are not parsed beyond the scheme by the model (never an allowed origin)
            if not ok and m[0] == "T" and not host_interpreted(m[2]):
                ok = o[0] == "F" or (o[0] == "T" and o[1] == m[1] and o[3] == m[3])
            if not ok and len(mism) < 20:
                mism.append({"index": n - 1, "input": repr(s), "impl": ln, "model": lm.strip()})
    rec = {"name": "Model/Whatwg.v vs Node 20 `new URL(input, base)` (origin: scheme, host, port)", "cases": n,
           "mismatches": len(mism), "note": "oracle validation of the standard's model; uninterpreted hosts compared on scheme/port only",
           "model_s": round(time.time() - t, 2)}
    if mism:
        rec["first_mismatches"] = mism[:5]
        ctx.broken.append({"kind": "correspondence", "name": rec["name"], "first": mism[0], "count_shown": len(mism)})
    ctx.corr.append(rec)
    ctx.evals += n


def under_domain(host, domain):
    d = domain.lower().lstrip(b".")
    return host == d or host.endswith(b"." + d)


def monitor_request_target_forms(ctx):
    """`wwh retryloc`: every interactive endpoint x failure cause (no matching ingress, provider refusing / failing / unreachable,
    session store down, missing login cookie) x way of writing the request line (origin-form, absolute-form naming the ingress or a
    foreign host, scheme without / with empty authority, doubled slash, foreign Host header) x X-Forwarded-Host absent / naming the
    configured ingress, and x SPELLING of the request path (dot segments climbing out of and back into the path, leading //host/,
    duplicate slashes before / inside the prefix, trailing slash, %2e%2e / %2f, ;params) under every configured prefix,
    through the real router, automatic retry redirects followed by a cookie-keeping browser.
    From the property text: every Location wonderwall itself emits - the automatic retry 307s included - resolves, as a browser
    resolves it against the URL it believes to be at (configured ingress origin + request path), to a configured ingress origin,
    or is an operator-configured default (identity provider endpoint, post-logout URI, SSO default redirect URL): never to a
    host that was only named in the request line or the Host header."""
    import json
    pre = ctx.path("retryloc")
    out, dt = vf.run_driver(["retryloc", "-out", pre, "-seed", str(ctx.seed), "-tier", ctx.tier])
    ctx.timings["retryloc_driver"] = round(dt, 2)
    # model and real code on EVERY automatic retry / error page of the sweep: Standalone.Retry + http.Redirect (+ html/template for
    # the page's retry link) vs Model/RetryUri.v, from the request line as net/http parses it
    ctx.correspondence("real error handler behind the real router (net/http request-line parsing, ingress matching, Standalone.Retry with the "
                       "decrypted login cookie, http.Redirect's Location; the error page's retry link as html/template writes it) vs Model/RetryUri.v "
                       "(+ Model/GoUrl.v, Redirect.v, HtmlEsc.v) on every 307 and every error page of `wwh retryloc`", pre + ".in", pre + ".impl",
                       note="line = mode, SSO domain, default redirect URL, configured ingress paths, request-target, Host, X-Forwarded-Host, "
                            "login-cookie Referer; the model does not take Host / X-Forwarded-Host (Retry does not read them)")
    recs = [json.loads(l) for l in open(pre + ".jsonl")]
    allowed_urls = sorted({u for r in recs for u in r["ingresses"] + list(r["configured_defaults"].values())})
    with_loc = [r for r in recs if r["location"]]
    pairs = [(r["browser_url"].encode(), r["location"].encode("utf-8", "surrogateescape")) for r in with_loc]
    res = node_resolve(ctx, "retryloc", pairs + [(u.encode(), u.encode()) for u in allowed_urls])
    origin_of = {u: parse_origin(x) for u, x in zip(allowed_urls, res[len(pairs):])}
    sigs = set()
    n_foreign_named = 0
    n_spelled = 0
    for r, x in zip(with_loc, res):
        o = parse_origin(x)
        allowed = {origin_of[u] for u in r["ingresses"] + list(r["configured_defaults"].values())}
        foreign = "evil" in (r["request_target"] + r["host_header"]).lower()
        n_spelled += "path spelling" in r["request_target_form"]
        n_foreign_named += foreign
        sigs.add((r["mode"], r["request_target_form"], bool(r["x_forwarded_host"]), r["endpoint"], r["fault"], r["status"], o[:3]))
        if o[0] == "F":
            continue    # the browser refuses the URL: no navigation
        if o not in allowed:
            case = {k: r[k] for k in ("mode", "ingresses", "configured_defaults", "request_target_form", "request_target", "host_header",
                                      "x_forwarded_host", "endpoint", "fault", "browser_has_session", "step", "status", "location")}
            case["request"] = "GET %s HTTP/1.1 / Host: %s%s" % (r["request_target"], r["host_header"],
                                                                  (" / X-Forwarded-Host: " + r["x_forwarded_host"]) if r["x_forwarded_host"] else "")
            case["fault_meaning"] = "no fault injected" if r["fault"] in ("n", "s") else ck_describe_fault(r["fault"])
            case["location_resolves_to"] = x
            ctx.violation("c04-redirect-to-request-line-host",
                          "a redirect wonderwall generates itself (error path / automatic retry) leaves the configured ingress origins and "
                          "operator-configured defaults: its Location names a host taken from the request line (request target / request path) or Host header", case)
    ctx.evals += len(recs)
    ctx.extra["request_target_forms"] = {"responses": len(recs), "with_location": len(with_loc),
                                         "requests_naming_a_foreign_host_with_location": n_foreign_named,
                                         "path_spellings_answered_with_location": n_spelled,
                                         "driver": out.strip().split("\n")[-1]}
    return len(sigs)


def ck_describe_fault(f):
    from lib.props import _cookie as ck
    return ck.describe_fault(f)


def run(ctx):
    pre = ctx.path("redirect")
    cfile = ctx.path("corpus.hex")
    ncorpus = corpus(cfile)
    out, dt = vf.run_driver(["redirect", "-out", pre, "-seed", str(ctx.seed), "-tier", ctx.tier, "-corpus", cfile])
    ctx.timings["redirect_driver"] = round(dt, 2)
    ctx.extra["driver_counts"] = dict(re.findall(r"redirect: (\S+) (\d+)", out))
    ctx.correspondence("real pkg/url validators + Canonical/Clean (standalone, SSO server, SSO proxy) + net/url Parse/ParseRequestURI/String "
                       "+ path.Clean + http.Redirect Location bytes vs Model/GoUrl.v, Model/Redirect.v", pre + ".in", pre + ".impl")

    # ---- monitor: collect every Location / canonical redirect the real code produced, resolve with the oracle
    t0 = time.time()
    checks = {}      # (base, loc) -> (rule, arg, sample case)
    raw_checks = {}  # informational: un-canonicalised targets accepted by the validators
    vap_accept = []
    stats = {"standalone_nonfallback": 0, "standalone_fallback": 0, "ssoserver_nonfallback": 0, "ssoserver_fallback": 0,
             "ssoproxy_nonfallback": 0, "ssoproxy_fallback": 0, "vap_accepted": 0, "unstable_canonical": 0}
    wh_inputs = set()
    with open(pre + ".in") as fi, open(pre + ".impl") as fo:
        for li, lo in zip(fi, fo):
            ti = li.split()
            kind = ti[0]
            to = lo.split()
            if kind == "r.standalone":
                ipath, reqpath, param = unhex(ti[1]), unhex(ti[2]), unhex(ti[3])
                canon, loc, again = unhex(to[0]), unhex(to[1]), unhex(to[2])
                fb = ipath or b"/"
                if canon == fb:
                    stats["standalone_fallback"] += 1
                else:
                    stats["standalone_nonfallback"] += 1
                if again != canon:
                    stats["unstable_canonical"] += 1
                key = (REQ_ORIGIN + reqpath, loc)
                if key not in checks:
                    checks[key] = ("same-origin", None, {"mode": "standalone", "redirect_param": repr(param), "ingress_path": repr(ipath),
                                                         "request_path": repr(reqpath), "canonical": repr(canon), "location": repr(loc)})
            elif kind == "r.ssoserver":
                if to[0] == "45":
                    continue
                domain, fbs, reqpath, param = unhex(ti[1]), unhex(ti[2]), unhex(ti[3]), unhex(ti[4])
                canon, loc = unhex(to[0]), unhex(to[1])
                if canon == fbs:
                    stats["ssoserver_fallback"] += 1
                    continue
                stats["ssoserver_nonfallback"] += 1
                key = (REQ_ORIGIN + reqpath, loc)
                checks.setdefault(key, ("under-domain", domain, {"mode": "sso-server", "redirect_param": repr(param), "domain": repr(domain),
                                                                 "default_redirect_url": repr(fbs),
                                                                 "canonical": repr(canon), "location": repr(loc)}))
                raw = unhex(to[2])
                if raw != fbs:
                    raw_checks.setdefault((REQ_ORIGIN + reqpath, unhex(to[3])), ("under-domain", domain, repr(param)))
            elif kind == "r.ssoproxy":
                if to[0] == "45":
                    continue
                ing, reqpath, param = unhex(ti[1]), unhex(ti[2]), unhex(ti[3])
                canon = unhex(to[0])
                if canon == ing or canon == ing.rstrip(b"/"):
                    stats["ssoproxy_fallback"] += 1
                else:
                    stats["ssoproxy_nonfallback"] += 1
                # the canonical redirect is what the SSO server will later send the browser to
                key = (REQ_ORIGIN + reqpath, canon)
                checks.setdefault(key, ("origin-of", ing, {"mode": "sso-proxy", "redirect_param": repr(param), "ingress": repr(ing),
                                                           "canonical": repr(canon)}))
            elif kind == "r.relclean":
                if to[0] == "01":
                    raw_checks.setdefault((REQ_ORIGIN + unhex(ti[2]), unhex(to[2])), ("same-origin", None, repr(unhex(ti[3]))))
            elif kind == "r.vap":
                if to[0] == "01":
                    stats["vap_accepted"] += 1
                    vap_accept.append(unhex(ti[1]))
            elif kind == "r.parse" and ti[1] == "0":
                wh_inputs.add(unhex(ti[2]))

    # L1 monitor (from the mechanism text): accepted path = single leading slash, no slash/backslash pair (also with
    # whitespace in between), no dot segment between slashes
    for s in vap_accept:
        if not s.startswith(b"/") or s.startswith(b"//") or PROPERTY_PAIR.search(s):
            ctx.violation("c04-validpath-shape", "isValidAbsolutePath accepts a string that is not a single-slash path free of slash pairs",
                          {"input": repr(s)})
    keys = list(checks.keys())
    ingresses = sorted({v[1] for v in checks.values() if v[0] == "origin-of"})
    vkeys = [(REQ_ORIGIN + b"/oauth2/login", s) for s in vap_accept]
    rkeys = list(raw_checks.keys())
    res = node_resolve(ctx, "monitor", keys + [(REQ_ORIGIN, i) for i in ingresses] + vkeys + rkeys)
    ing_origin = {i: parse_origin(r) for i, r in zip(ingresses, res[len(keys):len(keys) + len(ingresses)])}
    req_o = ("T", b"https", b"wonderwall.test", "-")
    offsite = 0
    for key, r in zip(keys, res):
        rule, arg, case = checks[key]
        o = parse_origin(r)
        case = dict(case, resolved=r, resolved_host=repr(o[2]) if o[0] == "T" else None)
        if o[0] == "F":
            continue   # the browser refuses the URL: no navigation
        bad = False
        if rule == "same-origin":
            bad = o != req_o
        elif rule == "under-domain":
            bad = not (o[0] == "T" and o[1] in (b"http", b"https") and under_domain(o[2], arg))
        elif rule == "origin-of":
            bad = o != ing_origin[arg]
        if bad:
            offsite += 1
            ctx.violation("c04-offsite-redirect", "a redirect built from the redirect parameter resolves (WHATWG) outside the allowed origin", case)
    base = len(keys) + len(ingresses)
    for (b, s), r in zip(vkeys, res[base:base + len(vkeys)]):
        if parse_origin(r) != req_o:
            ctx.violation("c04-validpath-offsite", "a string accepted by isValidAbsolutePath resolves (WHATWG) to another origin",
                          {"input": repr(s), "resolved": r})
    raw_off = []
    for key, r in zip(rkeys, res[base + len(vkeys):]):
        rule, arg, param = raw_checks[key]
        o = parse_origin(r)
        if o[0] == "F":
            continue
        if (rule == "same-origin" and o != req_o) or (rule == "under-domain" and not (o[0] == "T" and o[1] in (b"http", b"https") and under_domain(o[2], arg))):
            raw_off.append({"raw_target": param, "location": repr(key[1]), "resolved": r})
    stats["raw_targets_accepted_resolving_offsite"] = len(raw_off)
    ctx.extra["monitor_stats"] = stats
    ctx.extra["raw_validation_unsafe_examples"] = raw_off[:5]
    ctx.extra["corpus_strings"] = ncorpus
    ctx.timings["monitor"] = round(time.time() - t0, 2)

    # ---- autologin / error retry: login URL around a user-influenced target (monitor only, no model)
    lkeys, lcases = [], []
    if os.path.exists(pre + ".login"):
        seen = set()
        for line in open(pre + ".login"):
            pfx, reqpath, target, raw, loc = [unhex(x) for x in line.split()]
            for l in (raw, loc):
                k = (REQ_ORIGIN + reqpath, l)
                if k not in seen:
                    seen.add(k)
                    lkeys.append(k)
                    lcases.append({"site": "autologin/retry login URL (url.LoginRelative)", "ingress_path": repr(pfx), "request_path": repr(reqpath),
                                   "redirect_target": repr(target), "location": repr(l)})
        for (k, case, r) in zip(lkeys, lcases, node_resolve(ctx, "login", lkeys)):
            o = parse_origin(r)
            if o[0] != "F" and o != req_o:
                ctx.violation("c04-offsite-redirect", "the login URL built for autologin/retry resolves (WHATWG) outside the request origin", dict(case, resolved=r))
    stats["login_relative_locations"] = len(lkeys)

    # ---- "on automatic error retry ... request target": the error paths of every interactive endpoint under every way of writing
    # the request line (absolute-form for a foreign host, ...), with and without X-Forwarded-Host
    ctx.nontrivial += monitor_request_target_forms(ctx)

    # ---- "and from the SSO proxy's login/logout": the real handlers behind the real router (lib/props/_spx.py)
    from lib.props import _spx
    xst, xnt = _spx.run(ctx, "C04")
    ctx.nontrivial += xnt

    # ---- Model/Whatwg.v validated against Node
    nmax = 4 if ctx.tier == "quick" else 5
    for n in range(0, nmax + 1):
        for tup in itertools.product(ALPHABET, repeat=n):
            wh_inputs.add(b"".join(tup))
    for pfx in (b"http:", b"https:", b"HtTpS:", b"ftp:", b"x:", b"file:", b"https://", b"https:/\\", b"ws:\\\\"):
        for n in range(0, 4):
            for tup in itertools.product([b"/", b"\\", b"a", b".", b":", b"@", b"8", b"%", b"4", b"1", b"?", b"#", b"[", b"]", b"\t", b" ", b"A"], repeat=n):
                wh_inputs.add(pfx + b"".join(tup))
    step = max(1, len(keys) // 150000)
    for k in keys[::step]:
        wh_inputs.add(k[1])
    for k in rkeys:
        wh_inputs.add(k[1])
    whatwg_validation(ctx, sorted(wh_inputs))

    ctx.nontrivial += stats["standalone_nonfallback"] + stats["ssoserver_nonfallback"] + stats["ssoproxy_nonfallback"]
    shown = 0
    for key in keys:
        rule, arg, case = checks[key]
        if shown < 8 and case.get("canonical") not in ("b'/'", "b'/pre'") and (shown % 2 == 0 or rule != "same-origin"):
            ctx.samples.append(case)
            shown += 1
    ctx.rule = ("exhaustive strings over {/ \\ . % 2 F 5 C a : @ ? # SP TAB LF CR VT} up to length 4 plus lengths 5-6 over {/ \\ . % 5 C a TAB} (thorough: length 5 over the full alphabet, 6-7 over the sub-alphabet) as redirect parameter through the real "
                "StandaloneRedirect.Canonical + http.Redirect and through isValidAbsolutePath; up to length 3/4 through every other function "
                "(url.Parse, ParseRequestURI, String, RelativeValidator, AbsoluteValidator, SSO server / SSO proxy Canonical and Clean, http.Redirect); "
                "16 absolute-URL templates around the SSO domain with an exhaustively enumerated hole (20-symbol host alphabet, length <= 2/3); the strings of "
                "pkg/url/*_test.go and testdata/open-redirects.txt (raw and query-escaped); token-structured random strings; raw random bytes; long runs; "
                "configuration-derived near misses (harness/cmd/wwh/nearmiss.go) of every configured value - request origin + ingress path (3 standalone "
                "configurations), SSO domain and default redirect URL (8 SSO-server configurations: default with/without path, under/outside the domain, "
                "with a port), ingress (5 SSO-proxy configurations) - the whole pool through every function under the default configuration and each "
                "configuration's own near misses through its mode's Canonical/Clean (thorough: the whole pool under every configuration). " + _spx.RULE + ". "
                "request-target forms (wwh retryloc): {origin-form, absolute-form naming the ingress / a foreign host (http, https+port, upper case, ingress host as "
                "userinfo; naming the ingress with userinfo, also with a query ending in an undecodable '#' part), scheme without / with empty authority, doubled leading slash, "
                "foreign Host header} x X-Forwarded-Host {absent, the configured ingress} x "
                "{login, callback, logout, logout callback, local logout, front-channel logout} x failure causes {none, no matching ingress, provider refuses / 5xx / "
                "undecodable / connection refused, missing login cookie, login cookie with a relative / absolute Referer, redirect parameter on the callback, "
                "session store down plain / deadline / cancelled} x 3 configurations (standalone with and "
                "without path prefix, SSO server), retry redirects followed for up to 6 requests, plus single failing login / callback requests over 10 spellings of the "
                "authority part (userinfo with escapes, empty userinfo, IPv6 literal, scheme only) x 19 spellings of the query (redirect parameter repeated, undecodable, "
                "with ';', off-site, backslash, '#' tails); every Location resolved by Node against the ingress URL, and every 307 Location / error-page retry link "
                "(those of the path spellings below included) compared with Model/RetryUri.v; "
                "PATH SPELLINGS (origin-form, the ingress's own Host header): every interactive endpoint under every configured prefix of these configurations and of a "
                "standalone instance with auto-login, written as {leading //host/ + .. / x/../.. / %2e%2e back to the path, ///host/, /\\host/, /%2Fhost/, duplicate slash before the path / "
                "after the prefix / inside the prefix / inside the endpoint path, /./ before and after the prefix, /x/../ and /../ before the path, /../ and /%2e%2e/ climbing out of and back "
                "into the prefix, prefix doubled, trailing / /. /x/.., /%2e/, %2f for the slashes, ;params on the first / last segment} x {login ok / provider refusing / unreachable / "
                "with a session, callback without login cookie, logout with / without session / store down, logout callback, local logout ok / store down, front-channel logout}. "
                "distinct_nontrivial = cases whose canonical redirect is not the fallback")
    ctx.assumptions += [
        "browsers are represented by the WHATWG URL algorithm (Model/Whatwg.v for the theorems, Node 20's implementation for the monitor); the model is validated against Node only",
        "IDNA mapping of non-ASCII hosts is a function parameter of Model/Whatwg.v with the stated suffix-preservation hypothesis; IPv4 canonicalisation of numeric hosts and IPv6 literal syntax are not modelled (the SSO domain is assumed not to end in a numeric label)",
        "the value passed to Clean at login/logout callback time is the value Canonical stored in the encrypted cookie (cookie integrity: C-series crypto properties); validating an un-canonicalised target is proved unsafe (c04_raw_validation_unsafe)",
        "net/url, path.Clean and net/http.Redirect are modelled by transliteration and tied to the Go toolchain by the differential only",
        "the operator-configured defaults (ingress, default redirect URL, post-logout URI) are not validated by the property",
        "retry theorems (Proofs/RetryUriP.v): the error handler is reached only through the router, i.e. r.URL.Path starts with exactly one '/' "
        "(c04_retry_unrouted_refuted shows the Location for other records: unreachable unless an operator configures an "
        "ingress path starting with '//'); a request URL WITH userinfo can come back as '//userinfo@...' which browsers refuse "
        "(c04_retry_single_slash_refuted: GET https://u@app.example.com/oauth2/login?x#%zz); the literal form of the callback-branch Location is proved for ingress paths made of non-empty, non-dot segments "
        "of bytes net/url leaves unescaped in a path",
    ] + _spx.ASSUME
