"""C02 — the login callback creates a session only for the login this browser itself started."""
import re

from lib.props import _auth


def run(ctx):
    obs, ins, impl = _auth.run_auth(ctx, "callback")
    distinct = set()
    for o, li, lo in zip(obs, ins, impl):
        if o["kind"] != "callback":
            continue
        m = dict((k, int(v)) for k, v in re.findall(r"(\w+)=(\d+)", o["case"]))
        distinct.add(o["case"])
        case = {"case": o["case"], "input": li, "impl": lo}
        # ground truth from the generator's selectors (not from the model):
        #   cookie 3 = login cookie of attempt A, 4 = of attempt B; state 2 = A's state, 3 = B's; code 2 = A's, 3 = B's
        own = {3: 2, 4: 3}
        checks_ok = (m["cookie"] in own and m["state"] == own[m["cookie"]] and m["err"] in (0, 1)
                     and (m["isssup"] == 0 or m["iss"] == 1))
        sent = bool(o.get("token_calls"))
        if sent and not checks_ok:
            if m["cookie"] not in own:
                ctx.violation("c02-non-login-cookie-accepted",
                              "authorization code sent to the provider although the cookie under the login-cookie name is not a login cookie of this deployment (cookie class %d)" % m["cookie"], case)
            else:
                ctx.violation("c02-code-sent-despite-failed-check", "authorization code sent to the provider although a browser-side check fails", case)
        if not sent and checks_ok:
            ctx.violation("c02-code-not-redeemed", "all browser-side checks pass but the code was not redeemed", case)
        session = o.get("session_cookie_set") or o.get("store_keys_after", 0) > o.get("store_keys_before", 0)
        if session and not (checks_ok and m["code"] == own.get(m["cookie"])):
            ctx.violation("c02-session-for-foreign-login", "a session resulted although the callback does not belong to the login attempt bound in the cookie", case)
        if not checks_ok and (o.get("store_keys_after", 0) != o.get("store_keys_before", 0) or o.get("session_cookie_set")):
            ctx.violation("c02-store-changed-on-failed-check", "store changed / session cookie set although a browser-side check fails", case)
        # "the store is unchanged" (and the first sentence: nothing but such a callback results in a session): every callback that is
        # refused - whatever the reason - leaves every key AND every value of the store as it was, in particular the session this
        # browser already holds (its cookie came with the request; sess=1) and other users' sessions; and that session still works
        refused = not (o["status"] == 302 and o.get("session_cookie_set"))
        sb, sa = o.get("store_before", {}), o.get("store_after", {})
        if (refused or not checks_ok) and sb != sa:
            diff = {"deleted": sorted(k for k in sb if k not in sa), "added": sorted(k for k in sa if k not in sb),
                    "value_changed": sorted(k for k in sb if k in sa and sb[k] != sa[k])}
            key = "c02-store-changed-by-refused-callback"
            if o.get("held_session_key") in diff["deleted"] + diff["value_changed"]:
                key = "c02-held-session-lost-by-refused-callback"
            ctx.violation(key, "a callback that was refused (status %d, browser-side checks %s) changed the store: %s" %
                          (o["status"], "pass" if checks_ok else "fail", diff),
                          dict(case, store_before=sb, store_after=sa, store_difference=diff, held_session_key=o.get("held_session_key", "")))
        if (refused or not checks_ok) and o.get("held_session_works_before") == "yes" and o.get("held_session_works_after") != "yes":
            ctx.violation("c02-held-session-lost-by-refused-callback",
                          "the session this browser already had (cookie sent with the callback) no longer works after a callback that was refused (status %d)" % o["status"],
                          dict(case, held_session_key=o.get("held_session_key", ""), store_before=sb, store_after=sa))
        if not refused and checks_ok:
            # a successful callback writes exactly one entry (the new session)
            written = sorted(k for k in sa if k not in sb or sb[k] != sa[k])
            if len(written) != 1:
                ctx.violation("c02-successful-callback-store-effect", "a successful callback did not write exactly one store entry", dict(case, written=written))
        if not o.get("clears_login"):
            ctx.violation("c02-login-cookie-not-cleared", "login cookie not cleared by the callback", case)
        if sent and checks_ok:
            # the verifier and redirect URI are the ones sealed in the cookie: the provider accepted the PKCE pair iff code matches
            for call in o["token_calls"]:
                if not call.get("code_verifier") or not call.get("redirect_uri"):
                    ctx.violation("c02-grant-without-binding", "token request without the cookie's verifier / redirect URI", case)
    # a foreign code WHILE its redemption is in flight: browser B (own login cookie, own state, all browser-side checks pass) presents A's code
    # during A's token request. B must end without a session (its verifier is not the code's); a session for B would be "a session for a
    # login this browser did not start". A duplicate of A's own callback in that window may succeed at most once.
    import json as _json
    from lib import vf
    pre2 = ctx.path("codeinflight")
    vf.run_driver(["codeinflight", "-out", pre2, "-seed", str(ctx.seed), "-tier", ctx.tier])
    n2 = 0
    for line in open(pre2 + ".obs"):
        d = _json.loads(line)
        n2 += 1
        if d["variant"] == "foreign-code-own-state" and d["second_session"]:
            ctx.violation("c02-session-for-foreign-login", "a browser that presented ANOTHER browser's authorization code (while that code was being redeemed) with its own state and login "
                          "cookie obtained a session", d)
        if d["variant"] == "same-code-same-browser-twice" and d["first_session"] and d["second_session"] and len([p for p in d["token_requests"] if p["accepted"]]) > 1:
            ctx.violation("c02-code-redeemed-twice", "one authorization code was redeemed twice", d)
    ctx.evals += n2
    ctx.extra["code_in_flight_scenarios"] = n2
    ctx.nontrivial += len(distinct)
    ctx.samples += [{"case": o["case"], "input": li[-300:], "observed": lo} for o, li, lo in list(zip(obs, ins, impl))[:3]]
    ctx.rule = ("full cross product state{absent,empty,own,other attempt's,garbage,logout's, near misses of the bound state: first character, minus last character, plus a suffix, letter case swapped} x code{absent,empty,own,other's} x iss{absent,right,foreign,right+'/',upper-cased,right+suffix,right minus last char} x iss-supported "
                "x error{absent,empty,set} x cookie{absent,garbage,other key,own login,other attempt's login,this deployment's logout cookie,session ticket,retry value,non-JSON} "
                "(client-secret variant exhaustive; private-key variant every third point in quick); each case uses two fresh real login attempts and a real logout")
    ctx.assumptions += ["ideal AEAD: a cookie opens only under the key it was sealed with", "the provider is the harness's fake provider (PKCE and redirect_uri enforcing)"]
