"""C02 — the login callback creates a session only for the login this browser itself started."""
import re

from lib.props import _auth


def run(ctx):
    obs, ins, impl = _auth.run_auth(ctx, "callback")
    distinct = set()
    for o, li, lo in zip(obs, ins, impl):
        if o["kind"] != "callback":
            continue
        m = dict((k, int(v)) for k, v in re.findall(r"(\w+)=(\d+)", o["case"]))
        distinct.add(o["case"])
        case = {"case": o["case"], "input": li, "impl": lo}
        # ground truth from the generator's selectors (not from the model):
        #   cookie 3 = login cookie of attempt A, 4 = of attempt B; state 2 = A's state, 3 = B's; code 2 = A's, 3 = B's
        own = {3: 2, 4: 3}
        checks_ok = (m["cookie"] in own and m["state"] == own[m["cookie"]] and m["err"] in (0, 1)
                     and (m["isssup"] == 0 or m["iss"] == 1))
        sent = bool(o.get("token_calls"))
        if sent and not checks_ok:
            if m["cookie"] not in own:
                ctx.violation("c02-non-login-cookie-accepted",
                              "authorization code sent to the provider although the cookie under the login-cookie name is not a login cookie of this deployment (cookie class %d)" % m["cookie"], case)
            else:
                ctx.violation("c02-code-sent-despite-failed-check", "authorization code sent to the provider although a browser-side check fails", case)
        if not sent and checks_ok:
            ctx.violation("c02-code-not-redeemed", "all browser-side checks pass but the code was not redeemed", case)
        session = o.get("session_cookie_set") or o.get("store_keys_after", 0) != o.get("store_keys_before", 0)
        if session and not (checks_ok and m["code"] == own.get(m["cookie"])):
            ctx.violation("c02-session-for-foreign-login", "a session resulted although the callback does not belong to the login attempt bound in the cookie", case)
        if not checks_ok and (o.get("store_keys_after", 0) != o.get("store_keys_before", 0) or o.get("session_cookie_set")):
            ctx.violation("c02-store-changed-on-failed-check", "store changed / session cookie set although a browser-side check fails", case)
        if not o.get("clears_login"):
            ctx.violation("c02-login-cookie-not-cleared", "login cookie not cleared by the callback", case)
        if sent and checks_ok:
            # the verifier and redirect URI are the ones sealed in the cookie: the provider accepted the PKCE pair iff code matches
            for call in o["token_calls"]:
                if not call.get("code_verifier") or not call.get("redirect_uri"):
                    ctx.violation("c02-grant-without-binding", "token request without the cookie's verifier / redirect URI", case)
    ctx.nontrivial += len(distinct)
    ctx.samples += [{"case": o["case"], "input": li[-300:], "observed": lo} for o, li, lo in list(zip(obs, ins, impl))[:3]]
    ctx.rule = ("full cross product state{absent,empty,own,other attempt's,garbage,logout's} x code{absent,empty,own,other's} x iss{absent,right,foreign,right+'/',upper-cased,right+suffix,right minus last char} x iss-supported "
                "x error{absent,empty,set} x cookie{absent,garbage,other key,own login,other attempt's login,this deployment's logout cookie,session ticket,retry value,non-JSON} "
                "(client-secret variant exhaustive; private-key variant every third point in quick); each case uses two fresh real login attempts and a real logout")
    ctx.assumptions += ["ideal AEAD: a cookie opens only under the key it was sealed with", "the provider is the harness's fake provider (PKCE and redirect_uri enforcing)"]
