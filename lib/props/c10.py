"""C10 — decided on the session machine."""
from lib.props import _mach


def run(ctx):
    _mach.run_modes(ctx, ['conc', 'crash', 'history', 'faults'], ['c10'])
