"""C10 — decided on the session machine, plus logins with unusual token responses."""
import json

from lib import vf
from lib.props import _mach


def run(ctx):
    _mach.run_modes(ctx, ['conc', 'crash', 'history', 'faults'], ['c10'])
    # Logins whose token response has no refresh_token and / or no (zero, negative, huge) expires_in - all legal per RFC 6749.
    # Observation only (the session machine's login event has a fixed response shape): after the login, after requests of every
    # kind and later, every key in the shared store must carry an expiry that is positive and never later than
    # creation + maximum lifetime.
    pre = ctx.path("loginshapes")
    out, dt = vf.run_driver(["loginshapes", "-out", pre, "-seed", str(ctx.seed), "-tier", ctx.tier])
    ctx.timings["loginshapes"] = round(dt, 2)
    n = 0
    shapes = set()
    for line in open(pre + ".obs"):
        d = json.loads(line)
        n += 1
        shapes.add((d["no_refresh_token"], d["expires_in"], d["tau"], d["inactivity_ns"] > 0, d["store_clock_skew_ns"]))
        small = {k: d[k] for k in ("no_refresh_token", "expires_in", "tau", "maxlife_ns", "inactivity_ns", "login", "store_clock_skew_ns")}
        for st in d["steps"]:
            for k, ttl in st["ttls"].items():
                lock = k.endswith(".lock")
                bound = 10 * 10**9 if lock else d["maxlife_ns"] - st["elapsed_ns"]
                if ttl == -1:
                    ctx.violation("c10-immortal-key", "store key without expiry after a login whose token response has this shape", dict(small, step=st["at"], key=k))
                elif ttl <= 0 or ttl > bound:
                    ctx.violation("c10-ttl-exceeds-lifetime", "store key whose expiry is not within creation + maximum lifetime (ttl %d ns, bound %d ns)" % (ttl, bound),
                                  dict(small, step=st["at"], key=k))
    ctx.evals += n
    ctx.nontrivial += len(shapes)
    ctx.extra["login_response_shapes"] = {"logins": n, "distinct_shapes": len(shapes)}
    ctx.rule += ("; plus %d real logins over {refresh_token present/absent} x {expires_in normal/absent/0/negative/huge} x token lifetime x max lifetime x inactivity, "
                 "with the TTL of every store key read after the login, after requests of every kind and at later instants" % n)
