"""C11 — decided on the session machine."""
from lib.props import _mach


def run(ctx):
    _mach.run_modes(ctx, ['faults', 'faultgrid', 'history'], ['c11'])
