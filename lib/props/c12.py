"""C12 - with auto-login on, only ignored paths reach the upstream unauthenticated.

Correspondence: the extracted Model/Glob.v against the real doublestar.Match / path.Clean, the real
autologin.New + NeedsLogin (with its cache) and the real router (wildcard handler, no session).
Monitor: written from the property text and docs/configuration.md; it does not use the model.
"""
import json
import os
import re
from functools import lru_cache
from urllib.parse import parse_qs, unquote_to_bytes, urlsplit

from lib import vf

DEFAULTS = ["/favicon.ico", "/robots.txt"]   # "a built-in default" (docs: favicon / robots are always ignored)
META = set("?[{\\")


def autologin_clean_flag():
    p = os.path.join(vf.ROOT, "lib", "code_flags.json")
    try:
        return 1 if json.load(open(p)).get("autologin_clean", False) else 0
    except Exception:
        return 0


# ------------------------------------------------------------------ documented pattern semantics

@lru_cache(maxsize=None)
def seg_match(p, s):
    """one segment: literal bytes and '*' (any run of non-'/' bytes; s never contains '/')."""
    if p == "":
        return s == ""
    if p[0] == "*":
        return any(seg_match(p[1:], s[i:]) for i in range(len(s) + 1))
    return s != "" and s[0] == p[0] and seg_match(p[1:], s[1:])


def segs_match(ps, ns):
    if not ps:
        return not ns
    if ps[0] == "**":               # a segment equal to '**' spans zero or more whole segments
        if segs_match(ps[1:], ns):
            return True
        return bool(ns) and segs_match(ps, ns[1:])
    if not ns:
        return False
    return seg_match(ps[0], ns[0]) and segs_match(ps[1:], ns[1:])


def doc_match(pattern, path):
    return segs_match(tuple(pattern.split("/")), tuple(path.split("/")))


def strip_trailing_slash(p):
    return p[:-1] if p != "/" and p.endswith("/") else p


def remove_dot_segments(path):
    """RFC 3986 5.2.4 (doubled slashes are kept)."""
    out = []
    segs = path.split("/")
    for i, s in enumerate(segs):
        last = i == len(segs) - 1
        if s == ".":
            if last:
                out.append("")
        elif s == "..":
            if len(out) > 1:
                out.pop()
            if last:
                out.append("")
        else:
            out.append(s)
    r = "/".join(out)
    return r if r.startswith("/") else "/" + r


def merge_slashes(p):
    return re.sub(r"/+", "/", p)


def has_dot_segment(path):
    return any(s in (".", "..") for s in path.split("/"))


def strip_all_trailing_slashes(p):
    q = p.rstrip("/")
    return q if q else "/"


def expected_ignored(patterns, path):
    """(lo, hi): is the path exempt according to the property text - dot segments and a trailing slash
    removed, then matched against the patterns (docs: trailing slashes in paths and patterns are
    ignored). Where the text leaves room (doubled slashes kept as in RFC 3986 or merged as path.Clean
    and most upstreams do; one or all trailing slashes of a pattern removed) every reading is
    evaluated: lo = exempt under all readings, hi = exempt under some reading. A verdict is drawn only
    where lo == hi. None if a pattern is outside the documented syntax (literals, '*', '**')."""
    base = DEFAULTS + [q for q in patterns if q != ""]
    if any(set(p) & META for p in base):
        return None
    if not path.startswith("/"):
        path = "/" + path
    paths = {strip_trailing_slash(remove_dot_segments(path)),
             strip_trailing_slash(merge_slashes(remove_dot_segments(merge_slashes(path)))),
             strip_all_trailing_slashes(remove_dot_segments(path))}
    res = set()
    for strip in (strip_trailing_slash, strip_all_trailing_slashes):
        pats = [strip(p) for p in base]
        for q in paths:
            res.add(any(doc_match(p, q) for p in pats))
    return (all(res), any(res))


def raw_matches(patterns, path):
    pats = [strip_trailing_slash(p) for p in DEFAULTS + [q for q in patterns if q != ""]]
    if not path.startswith("/"):
        path = "/" + path
    return any(doc_match(p, strip_trailing_slash(path)) for p in pats)


def unhex(h):
    return "" if h in ("-", "") else bytes.fromhex(h).decode("latin-1")


def unhexlist(h):
    return [] if h == "~" else [unhex(x) for x in h.split(",")]


# ------------------------------------------------------------------ documentation examples

def doc_examples():
    """(pattern, path, should_match) triples from docs/configuration.md."""
    out = []
    try:
        text = open(os.path.join(vf.REPO, "docs", "configuration.md")).read()
    except OSError:
        return out
    m = re.search(r"### `auto-login-ignore-paths`(.*?)</details>", text, re.S)
    if not m:
        return out
    pats, mode = [], None
    for line in m.group(1).split("\n"):
        if re.match(r"^- `", line):
            pats, mode = re.findall(r"`([^`]+)`", line), None
        elif "matches:" in line and "not match" not in line:
            mode = True
        elif "does not match" in line:
            mode = False
        else:
            mm = re.match(r"^\s+- `([^`]+)`\s*$", line)
            if mm and mode is not None:
                for p in pats:
                    out.append((p, mm.group(1), mode))
    return out


# ------------------------------------------------------------------ monitors

def monitor_glob(ctx, infile, implfile, limit_len=4):
    """doublestar.Match against the documented semantics on the short exhaustive cases."""
    n = 0
    seen = set()
    found = []
    with open(infile) as fi, open(implfile) as fo:
        for li, lo in zip(fi, fo):
            if not li.startswith("glob "):
                continue
            t = li.split()
            if len(t[1]) > 2 * limit_len or len(t[2]) > 2 * limit_len:
                continue
            pat, name = unhex(t[1]), unhex(t[2])
            if set(pat) & (META | set("]")) or "*" in name:
                continue
            # as used by wonderwall: patterns and paths have had one trailing slash removed
            if (pat.endswith("/") and pat != "/") or (name.endswith("/") and name != "/"):
                continue
            n += 1
            impl, spec = lo.strip() == "1", doc_match(pat, name)
            if impl != spec:
                case = {"pattern": pat, "path": name, "doublestar.Match": impl, "documented": spec}
                found.append(case)
            seen.add((impl, pat.count("*"), name.count("/")))
    # most natural failing input first (absolute pattern, no '***')
    found.sort(key=lambda c: ("***" in c["pattern"], not c["pattern"].startswith("/"), len(c["pattern"]) + len(c["path"])))
    for case in found[:50]:
        if case["doublestar.Match"]:
            ctx.violation("c12-glob-overmatch", "pattern matches a path it should not match by the documented semantics", case)
        else:
            ctx.violation("c12-glob-undermatch", "path matches the pattern by the documented semantics ('*' within a segment, "
                          "'**' = zero or more segments, '/x/**' includes '/x') but doublestar.Match says no", case)
    return n, len(seen)


def monitor_needs(ctx, infile, implfile, docs):
    docmap = {(p, q): m for p, q, m in docs}
    nontrivial = set()
    with open(infile) as fi, open(implfile) as fo:
        for li, lo in zip(fi, fo):
            t = li.split()
            enabled = t[2] == "1"
            k = int(t[3])
            pats = [unhex(x) for x in t[4:4 + k]]
            m = int(t[4 + k])
            rest = t[5 + k:]
            reqs = [(rest[2 * i] == "1", unhex(rest[2 * i + 1])) for i in range(m)]
            o = lo.split()
            ds = "" if o[1] == "~" else o[1]
            first = {}
            for (auth, path), d in zip(reqs, ds):
                needs = d == "1"
                case = {"enabled": enabled, "ignore_patterns": pats, "authenticated": auth, "url_path": path, "needs_login": needs}
                if auth or not enabled:
                    if needs:
                        ctx.violation("c12-login-when-not-needed", "NeedsLogin is true for an authenticated request / auto-login off", case)
                    continue
                # memoisation: same normalised path, same answer
                key = strip_trailing_slash(path if path.startswith("/") else "/" + path)
                if key in first and first[key] != needs:
                    ctx.violation("c12-cache-inconsistent", "two requests for the same path got different decisions", case)
                first.setdefault(key, needs)
                if len(pats) == 1 and (pats[0], path) in docmap and docmap[(pats[0], path)] == needs:
                    ctx.violation("c12-doc-example", "documented example behaves differently", dict(case, documented_match=docmap[(pats[0], path)]))
                exp = expected_ignored(pats, path)
                if exp is None:
                    continue
                nontrivial.add((needs, exp, has_dot_segment(path), path.endswith("/"), len(pats)))
                judge(ctx, not needs, exp, pats, path, case)
    return len(nontrivial)


DEFERRED = []


def judge(ctx, forwarded, exp, pats, path, case):
    lo, hi = exp
    if forwarded and not hi:
        if has_dot_segment(path):
            ctx.violation("c12-dot-segment-bypass",
                          "request forwarded unauthenticated although its path, after removal of dot segments, matches no ignore pattern "
                          "(the matcher sees the raw path)", case)
        elif raw_matches(pats, path):
            ctx.violation("c12-glob-overmatch", "forwarded: pattern matches a path it should not match by the documented semantics", case)
        else:
            ctx.violation("c12-unlisted-path-forwarded", "request forwarded unauthenticated although no ignore pattern matches", case)
    if not forwarded and lo:
        # naming only: is the refusal explained by doublestar's end-of-name quirks on the normalised path
        # ('***', '*/**', empty last segment), or by the matcher having seen the un-normalised path?
        norm = strip_trailing_slash(remove_dot_segments(path if path.startswith("/") else "/" + path))
        hits = [p for p in (strip_trailing_slash(q) for q in DEFAULTS + [q for q in pats if q != ""]) if doc_match(p, norm)]
        quirky = bool(hits) and all("***" in p or "*/**" in p or norm.endswith("/") for p in hits)
        if has_dot_segment(path) and not quirky:
            ctx.violation("c12-dot-segment-overblock",
                          "login demanded although the path, after removal of dot segments, matches an ignore pattern", case)
        else:
            DEFERRED.append(("c12-glob-undermatch", "login demanded although the path matches an ignore pattern by the documented semantics "
                             "('/x/**' includes '/x'; a glued '**' behaves like '*')", case))


def monitor_route(ctx, metafile):
    nontrivial = set()
    partial = {}
    with open(metafile) as f:
        for line in f:
            t = line.rstrip("\n").split("\t")
            pats, ings = unhexlist(t[0]), unhexlist(t[1])
            method, mode, dest, accepts, referer = t[2], t[3], t[4], unhexlist(t[5]), unhex(t[6])
            forwarded, code, loc, target, upurl = t[7] == "1", int(t[8]), unhex(t[9]), unhex(t[10]), unhex(t[11])
            rawpath = target.split("?", 1)[0]
            path = unquote_to_bytes(rawpath).decode("latin-1")
            case = {"ignore_patterns": pats, "ingress_paths": ings, "request": "%s %s" % (method, target),
                    "Sec-Fetch-Mode": mode, "Sec-Fetch-Dest": dest, "Accept": accepts, "Referer": referer,
                    "forwarded_to_upstream": forwarded, "status": code, "Location": loc, "decoded_path": path}
            exp = expected_ignored(pats, path)
            if exp is not None:
                judge(ctx, forwarded, exp, pats, path, case)
                nontrivial.add((forwarded, exp, has_dot_segment(path), "%" in rawpath, "//" in rawpath, method, mode, code))
            if forwarded:
                if upurl != target:
                    ctx.violation("c12-forwarded-path-altered", "an exempt request reached the upstream with a different path/query",
                                  dict(case, upstream_saw=upurl))
                continue
            # answered by wonderwall itself
            mts = [v.strip().lower().split(";")[0] for h in accepts for v in h.split(",")]
            html = any(m == "text/html" for m in mts)
            odd = any(m != m.strip() and m.strip() == "text/html" for m in mts)   # "text/html ;q=1": the text does not say
            if mode == "" and dest == "":
                nav = None if (odd and not html and method == "GET") else (method == "GET" and html)
            elif mode == "navigate" and dest == "document":
                nav = method == "GET"
            elif mode != "" and dest != "":
                nav = False           # complete fetch metadata that does not say navigate + document
            elif (mode or dest) in ("navigate", "document"):
                # exactly one fetch-metadata header, and it carries the navigation value: the text does not say whether
                # that is "recognisably" a top-level navigation. What the text does exclude: deciding it by the Accept
                # header (that is the test for browsers that send NO fetch metadata) - checked below as a pair property
                nav = None
            else:
                # exactly one fetch-metadata header and it names something else (cors, same-origin, empty, iframe ...):
                # the browser itself says this is not a top-level navigation, whatever the Accept header lists
                nav = False
            if (mode == "") != (dest == ""):
                partial.setdefault((tuple(pats), tuple(ings), method, target, mode, dest, referer), []).append((html, code, case))
            u = urlsplit(loc)
            redirect = parse_qs(u.query, keep_blank_values=True).get("redirect", [None])[0]
            if not u.path.endswith("/oauth2/login") or u.scheme or u.netloc:
                ctx.violation("c12-wrong-location", "short-circuit response without a Location pointing to the login endpoint", case)
            if nav is True:
                if code != 302:
                    ctx.violation("c12-wrong-status", "top-level navigation not answered with 302", case)
                if redirect != target:
                    ctx.violation("c12-wrong-return-url", "login URL of a navigation does not name the requested URL", dict(case, redirect=redirect))
            elif nav is False:
                if code != 401:
                    ctx.violation("c12-wrong-status", "non-navigation request not answered with 401", case)
                if referer and redirect != referer:
                    ctx.violation("c12-wrong-return-url", "login URL of a non-navigation request does not name the referring page", dict(case, redirect=redirect))
    # a request that carries fetch metadata (one of the two headers) is classified by that metadata: the same request with
    # and without text/html in its Accept header must get the same kind of answer
    for key, obs in partial.items():
        codes = {c for _, c, _ in obs}
        if len(codes) > 1 and len({h for h, _, _ in obs}) > 1:
            case = next(cs for h, _, cs in obs if h)
            ctx.violation("c12-wrong-status", "a request carrying fetch metadata is answered 302 or 401 depending on its Accept header "
                          "(the Accept test is for requests without any fetch metadata)", dict(case, statuses_by_accept_html=sorted((h, c) for h, c, _ in obs)))
    return len(nontrivial)


def run(ctx):
    clean = str(autologin_clean_flag())
    docs = doc_examples()
    extra = ctx.path("docs.tsv")
    with open(extra, "w") as f:
        for p, q, _ in docs:
            f.write("%s\t%s\n" % (p, q))

    pre = ctx.path("glob")
    _, dt = vf.run_driver(["glob", "-out", pre, "-seed", str(ctx.seed), "-tier", ctx.tier, "-extra", extra])
    ctx.timings["glob"] = round(dt, 2)
    ctx.correspondence("glob: doublestar.Match (boolean) and path.Clean vs Model/Glob.v glob_exec / GlobFull.v / path_clean",
                       pre + ".in", pre + ".impl")

    pre2 = ctx.path("needs")
    _, dt = vf.run_driver(["globneeds", "-out", pre2, "-seed", str(ctx.seed), "-tier", ctx.tier, "-clean", clean, "-extra", extra])
    ctx.timings["globneeds"] = round(dt, 2)
    ctx.correspondence("needs: real autologin.New + NeedsLogin (sequences on one AutoLogin value, cache) vs new_patterns / needs_login_seq",
                       pre2 + ".in", pre2 + ".impl")

    pre3 = ctx.path("route")
    from lib.machine import code_flags
    # bit 0: clean_first, bit 1: ingress paths match on segment boundaries (lib/code_flags.json ingress_segment_prefix)
    clean_seg = str(int(clean) + (2 if code_flags().get("ingress_segment_prefix") else 0))
    _, dt = vf.run_driver(["globroute", "-out", pre3, "-seed", str(ctx.seed), "-tier", ctx.tier, "-clean", clean_seg])
    ctx.timings["globroute"] = round(dt, 2)
    ctx.correspondence("route: real router (wildcard handler, auto-login on, no session; recording upstream) vs handler_unauth",
                       pre3 + ".in", pre3 + ".impl")
    # monitors: end-to-end first, so that the reported failing input of a finding is a real request
    ctx.nontrivial += monitor_route(ctx, pre3 + ".meta")
    ctx.nontrivial += monitor_needs(ctx, pre2 + ".in", pre2 + ".impl", docs)
    # most natural failing input first
    DEFERRED.sort(key=lambda v: (any("***" in p for p in v[2]["ignore_patterns"]), len(v[2]["ignore_patterns"])))
    for k, w, c in DEFERRED[:50]:
        ctx.violation(k, w, c)
    del DEFERRED[:]
    n_glob, nt = monitor_glob(ctx, pre + ".in", pre + ".impl", 4 if ctx.tier == "quick" else 5)
    ctx.nontrivial += nt

    for pfx in (pre, pre2, pre3):
        with open(pfx + ".in") as fi, open(pfx + ".impl") as fo:
            for i, (a, b) in enumerate(zip(fi, fo)):
                if i in (0, 1000, 500000):
                    ctx.samples.append({"input": a.strip()[:400], "impl_and_model": b.strip()[:200]})
    ctx.extra["documentation_examples"] = len(docs)
    ctx.extra["glob_cases_checked_against_documented_semantics"] = n_glob
    ctx.extra["model_flag_autologin_clean"] = bool(int(clean))
    ctx.rule = ("glob: exhaustive patterns over {a,b,/,.,*} x names over {a,b,/,.} up to length 5 (6 thorough), all pairs with |pattern|+|name| <= 9 (10), "
                "patterns over {a,/,*} x names over {a,/} up to length 7 (8), meta-character patterns ('?','[',']','\\\\','-','!') exhaustive to "
                "length 3 (4) and random, structured random incl. multi-byte UTF-8, path.Clean over {a,/,.} to length 7 (9); "
                "needs: random configurations from a pattern pool x request sequences with repeats; route: 5 configurations x fixed odd paths x "
                "{GET,POST,HEAD} x 7 header combinations (+ on 6 targets the whole lattice Sec-Fetch-Mode {absent,navigate,cors,same-origin} x Sec-Fetch-Dest {absent,document,empty,iframe} x Accept {text/html, json, html+wildcard, none}) + random paths. distinct_nontrivial counts distinct (decision, expected, dot-segment, "
                "encoding, method, header, status) signatures")
    ctx.assumptions += [
        "strings are compared bytewise in the model; Go's doublestar compares runes: identical for valid UTF-8 (invalid bytes all decode to U+FFFD in Go) - the drivers use ASCII and valid UTF-8 only",
        "patterns with '{a,b}' alternatives are not modelled (GlobFull.v covers '?', '[...]', '\\\\'); theorems are stated for patterns of literals, '*', '**', '/'",
        "r.URL.String() and r.URL.Path are inputs of the model (net/url parsing/escaping is not modelled); ingress paths are clean ASCII paths",
        "the model's clean_first=true places path.Clean after the leading-slash repair in NeedsLogin (flag autologin_clean in lib/code_flags.json)",
        "monitor verdicts are drawn only where all readings of the text (doubled slashes kept or merged, one or all trailing slashes removed) give the same expectation",
        "navigation: both fetch-metadata headers absent -> decided by Accept; both present -> navigate+document; exactly one present with a non-navigation value -> not a navigation (401 expected); exactly one present carrying navigate / document -> no verdict on the status, only that it may not depend on the Accept header",
    ]
