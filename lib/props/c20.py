"""C20 — start-up refuses incomplete or unsafe configuration instead of running degraded.

Correspondence (three parts, all on every run):
  key: real crypto.EncryptionKeyOrGenerate vs Model/Config.v:cf_key_check (exhaustive small alphabet + structured + random)
  val: real Config.Validate / ingress.ParseIngresses / router.New vs cf_validate / cf_parse_ingresses / cf_router
  run: the BUILT BINARY of /repo started with generated flags / WONDERWALL_* / provider variables against a fake
       discovery+JWKS server and miniredis vs cf_run (outcome class = which check refused first, 0 = listening)
Monitor (written from the property text and docs/configuration.md, not from the model): for every binary run,
  listening => every documented rule holds, and every documented rule holds => listening.
"""
import base64
import json
import re
from urllib.parse import unquote, urlsplit

from lib import vf

JWA = {"HS256", "HS384", "HS512", "RS256", "RS384", "RS512", "ES256", "ES384", "ES512", "PS256", "PS384", "PS512",
       "none", "EdDSA", "ES256K"}
GO_TRUE = {"1", "t", "T", "TRUE", "true", "True"}
GO_FALSE = {"0", "f", "F", "FALSE", "false", "False"}
DUR = re.compile(r"^[+-]?(\d+(\.\d*)?|\.\d+)(ns|us|µs|ms|s|m|h)((\d+(\.\d*)?|\.\d+)(ns|us|µs|ms|s|m|h))*$|^[+-]?0$")
UNIT = {"ns": 1, "us": 10**3, "µs": 10**3, "ms": 10**6, "s": 10**9, "m": 60 * 10**9, "h": 3600 * 10**9}
LEGACY_ACR = {"Level3": "idporten-loa-substantial", "Level4": "idporten-loa-high"}

# What the documentation says is PARSED from /repo/docs/configuration.md on every run (parse_docs): the flag table
# (defaults), and per provider section the bound environment variables and the changed defaults. Nothing about the
# documentation's content is hard-coded here except how a variable name maps to a setting (by its suffix).
DOCS = None
PENV_SUFFIX = (("WELL_KNOWN_URL", "openid.well-known-url"), ("CLIENT_ID", "openid.client-id"), ("JWK", "openid.client-jwk"))
PROVIDER_HEADINGS = {"ID-porten": "idporten", "Azure AD": "azure"}
NEEDED_DEFAULTS = ("cookie.same-site", "cookie.secure", "openid.id-token-signing-alg", "openid.provider", "sso.mode",
                   "shutdown-graceful-period", "shutdown-wait-before-period", "redis.tls", "redis.connection-idle-timeout")


def parse_docs(path):
    """-> {"defaults": {flag: default}, "penv": {provider: {setting: VARIABLE}}, "provider_defaults": {provider: {flag: value}}}.
    Raises vf.InfraError when the file does not have the expected shape (never a silent fallback)."""
    try:
        text = open(path, encoding="utf-8").read()
    except OSError as e:
        raise vf.InfraError("C20: cannot read the documentation %s: %s" % (path, e))
    defaults = {}
    for m in re.finditer(r"^\|\s*`([a-z0-9.\-]+)`\s*\|\s*([a-z]+)\s*\|\s*(?:`([^`]*)`)?\s*\|", text, re.M):
        defaults[m.group(1)] = m.group(3) or ""
    if len(defaults) < 40:
        raise vf.InfraError("C20: flag table of %s not recognised (%d rows)" % (path, len(defaults)))
    for k in NEEDED_DEFAULTS:
        if k not in defaults:
            raise vf.InfraError("C20: flag %s missing from the table in %s" % (k, path))
    if "boolean flags are by default set to `false`" not in text.lower():
        raise vf.InfraError("C20: the sentence about the default of boolean flags is missing from %s" % path)
    penv, pdef = {}, {}
    sections = re.split(r"^####\s+", text, flags=re.M)[1:]
    for sec in sections:
        title = sec.split("\n", 1)[0].strip()
        prov = PROVIDER_HEADINGS.get(title)
        if prov is None:
            continue
        body = sec.split("\n### ")[0].split("\n## ")[0]
        names = re.findall(r"^- `([A-Z][A-Z0-9_]*)`", body, re.M)
        mapping = {}
        for nm in names:
            for suf, setting in PENV_SUFFIX:
                if nm.endswith("_" + suf):
                    if setting in mapping:
                        raise vf.InfraError("C20: two documented variables for %s of provider %s: %s, %s" % (setting, prov, mapping[setting], nm))
                    mapping[setting] = nm
                    break
            else:
                raise vf.InfraError("C20: documented variable %s of provider %s has no known suffix" % (nm, prov))
        if set(mapping) != {x[1] for x in PENV_SUFFIX}:
            raise vf.InfraError("C20: provider section %r of %s: expected variables for client id, JWK and well-known URL, found %s" % (title, path, names))
        penv[prov] = mapping
        pdef[prov] = {m.group(1): m.group(2) for m in re.finditer(r"^\|\s*`([a-z0-9.\-]+)`\s*\|\s*`([^`]*)`\s*\|\s*$", body, re.M)}
    if set(penv) != {"idporten", "azure"}:
        raise vf.InfraError("C20: provider sections (#### ID-porten, #### Azure AD) not found in %s" % path)
    if "openid.acr-values" not in pdef["idporten"] or "openid.ui-locales" not in pdef["idporten"]:
        raise vf.InfraError("C20: the idporten defaults table of %s does not list openid.acr-values / openid.ui-locales" % path)
    return {"defaults": defaults, "penv": penv, "provider_defaults": pdef}


def docs():
    global DOCS
    if DOCS is None:
        import os
        DOCS = parse_docs(os.path.join(vf.REPO, "docs", "configuration.md"))
    return DOCS


# the "other" reading of the two points where documentation and code once differed: used ONLY to name a disagreement
ALT_AZURE_JWK = ("AZURE_APP_JWK", "AZURE_APP_CLIENT_JWK")
ALT_IDPORTEN_ACR = ("idporten-loa-high", "Level4")


def parse_duration(s):
    if not DUR.match(s):
        return None
    if s in ("0", "+0", "-0"):
        return 0
    neg = s.startswith("-")
    total = 0
    for num, _, _, unit in re.findall(r"((\d+(\.\d*)?|\.\d+))(ns|us|µs|ms|s|m|h)", s):
        total += float(num) * UNIT[unit]
    return -int(total) if neg else int(total)


def parse_int(s):
    try:
        return int(s, 0)
    except ValueError:
        return None


def parse_bool(s):
    return True if s in GO_TRUE else False if s in GO_FALSE else None


def is_url(s):
    if not s or any(ord(ch) < 32 or ord(ch) == 127 for ch in s):
        return False
    if s.startswith("/"):
        return True
    try:
        u = urlsplit(s)
    except ValueError:
        return False
    return bool(u.scheme) and s[len(u.scheme):len(u.scheme) + 1] == ":"


def ingress_parts(s):
    """(scheme, hostname) of a valid http(s) ingress, else None"""
    if not s or s != s.strip() or any(ord(ch) <= 32 or ord(ch) == 127 for ch in s):
        return None
    try:
        u = urlsplit(s)
        host = u.hostname
    except ValueError:
        return None
    if u.scheme not in ("http", "https") or not u.netloc or not s.lower().startswith(u.scheme + "://"):
        return None
    # the path becomes a route prefix: the router's pattern characters are not allowed in it (fix 9040a49)
    if any(ch in unquote(u.path).rstrip("/") for ch in "*{}"):
        return None
    return u.scheme, (host or "")


def jwk_ok(s):
    try:
        k = json.loads(s)
    except ValueError:
        return False
    if not isinstance(k, dict):
        return False
    need = {"RSA": ("n", "e"), "EC": ("crv", "x", "y"), "oct": ("k",), "OKP": ("crv", "x")}.get(k.get("kty"))
    return need is not None and all(isinstance(k.get(m), str) and k.get(m) for m in need)


def documented_view(case, azure_jwk_env=None, idporten_acr=None):
    """Resolve every setting the way the documentation describes: flag, else WONDERWALL_<NAME>, else the provider's
    variable named in docs/configuration.md, else the documented default."""
    flags, env = {}, {}
    for a in case["args"] or []:
        m = re.match(r"^--([a-z0-9.\-]+)=(.*)$", a, re.S)
        if m:
            flags[m.group(1)] = m.group(2)
    for e in case["env"] or []:
        k, _, v = e.partition("=")
        env[k] = v

    def wenv(name):
        return env.get("WONDERWALL_" + re.sub(r"[^A-Z0-9]", "_", name.upper()), "")

    def base(name):
        if name in flags:
            return flags[name]
        return wenv(name)

    D = docs()
    provider = base("openid.provider") or D["defaults"]["openid.provider"]
    if provider not in ("openid", "azure", "idporten"):
        provider = "openid"

    def get(name):
        if name in flags:
            return flags[name], "flag"
        if wenv(name) != "":
            return wenv(name), "wenv"
        pv = D["penv"].get(provider, {}).get(name)
        if provider == "azure" and name == "openid.client-jwk" and azure_jwk_env is not None:
            pv = azure_jwk_env
        if pv and env.get(pv, "") != "":
            return env[pv], "penv"
        if provider == "idporten" and name == "openid.acr-values" and idporten_acr is not None:
            return idporten_acr, "default"
        if name in D["provider_defaults"].get(provider, {}):
            return D["provider_defaults"][provider][name], "default"
        if name == "sso.enabled":
            return "false", "default"   # "Boolean flags are by default set to false unless noted otherwise"
        return D["defaults"].get(name, ""), "default"

    return provider, get, env


def rules(case, **reading):
    """Returns (list of violated documented rules, facts). The default reading is the documentation's; the keyword
    arguments select the code's variable name / default instead and are used ONLY to name a disagreement."""
    provider, get, env = documented_view(case, **reading)
    bad = []
    v = lambda n: get(n)[0]
    # typed settings must be well formed
    secure = parse_bool(v("cookie.secure"))
    sso = parse_bool(v("sso.enabled"))
    port_s = v("upstream-port")
    port = parse_int(port_s) if port_s != "" else 0
    G, W = parse_duration(v("shutdown-graceful-period")), parse_duration(v("shutdown-wait-before-period"))
    # (the rest of the redis section: typed settings like the others; they say HOW to talk to a store, never that there is one)
    tls = parse_bool(v("redis.tls"))
    idle_s = v("redis.connection-idle-timeout")
    idle = parse_int(idle_s) if idle_s != "" else 0
    if secure is None or sso is None or port is None or G is None or W is None or tls is None or idle is None:
        return ["malformed-typed-setting"], {}
    # encryption key
    key = v("encryption-key")
    blank = False
    if key != "":
        try:
            raw = base64.b64decode(key.replace("\n", "").replace("\r", ""), validate=True)
        except Exception:
            raw = None
        if raw is None or len(raw) != 32:
            bad.append("encryption-key")
            blank = key.strip("\r\n") == ""
    # ingress
    ing_raw = v("ingress")
    ings = ing_raw.split(",") if ing_raw != "" else []
    parts = [ingress_parts(s) for s in ings]
    if not ings or any(p is None for p in parts):
        bad.append("ingress")
    if not secure and any(p is None or p[0] != "http" or p[1].lower() != "localhost" for p in parts):
        bad.append("insecure-cookie-non-localhost")
    if v("cookie.same-site") not in ("Strict", "Lax", "None"):
        bad.append("same-site")
    alg = v("openid.id-token-signing-alg")
    if alg not in JWA:
        bad.append("signing-alg")
    mode = "standalone"
    if sso:
        m = v("sso.mode")
        mode = m if m in ("server", "proxy") else "invalid"
        if mode == "invalid":
            bad.append("sso-mode")
        if v("redis.address") == "" and v("redis.uri") == "":
            bad.append("sso-store")
        if v("sso.session-cookie-name") == "":
            bad.append("sso-cookie-name")
        if mode == "proxy" and not is_url(v("sso.server-url")):
            bad.append("sso-server-url")
        if mode == "server" and (v("sso.domain") == "" or not is_url(v("sso.server-default-redirect-url"))):
            bad.append("sso-server-settings")
    uri = v("redis.uri")
    if uri != "" and not re.match(r"^(redis|rediss|unix)://", uri):
        bad.append("redis-uri")
    ip = v("upstream-ip")
    if (ip == "") != (port == 0) or (port != 0 and not 1 <= port <= 65535):
        bad.append("upstream")
    if W < 0:
        bad.append("negative-wait-before")
    if not G > W:
        bad.append("shutdown-periods")
    facts = {"provider": provider, "mode": mode, "blank_key": blank,
             "acr_source": get("openid.acr-values")[1], "jwk_source": get("openid.client-jwk")[1]}
    if mode != "proxy":
        jwk, secret = v("openid.client-jwk"), v("openid.client-secret")
        if v("openid.client-id") == "":
            bad.append("client-id")
        if jwk == "" and secret == "":
            bad.append("client-credentials")
        elif jwk != "" and not jwk_ok(jwk):
            bad.append("client-jwk")
        wk = v("openid.well-known-url")
        d = case["disc"]
        if wk == "":
            bad.append("discovery-url")
        elif wk != case["disc_url"]:
            bad.append("discovery-url-unreachable")
        else:
            if d["kind"] not in ("ok", "status404"):
                bad.append("discovery-document-malformed")
            else:
                if alg not in (d["algs"] or []):
                    bad.append("discovery-signing-alg")
                acr = v("openid.acr-values")
                acrs = d["acrs"] or []
                if acr != "" and acr not in acrs and LEGACY_ACR.get(acr) not in acrs:
                    bad.append("discovery-acr")
                loc = v("openid.ui-locales")
                if loc != "" and loc not in (d["locales"] or []):
                    bad.append("discovery-locale")
                if d["jwks"] != "ok":
                    bad.append("discovery-jwks")
                if d["end_session_endpoint"] == "http://[::1":
                    bad.append("discovery-end-session-endpoint")
    return bad, facts


def monitor(ctx, casefile):
    n = 0
    sig = set()
    store_rows = set()
    listening = refused = 0
    for line in open(casefile):
        case = json.loads(line)
        res = case["result"]
        n += 1
        if res["outcome"] not in ("listen", "exit"):
            ctx.violation("startup-no-decision", "process neither listened nor exited within the wait", case)
            continue
        bad, facts = rules(case)
        started = res["outcome"] == "listen"
        listening += started
        refused += not started
        sig.add((started, res["code"], tuple(bad[:2])))
        # coverage of the clause "SSO modes need a shared store": SSO-mode runs in which no store is named, by how the
        # settings were supplied and by whether anything else of the redis section (incl. redis.tls) was on the command line
        # or in the environment
        if bad == ["sso-store"] and facts.get("mode") in ("server", "proxy"):
            given = set()
            for x in case["args"] or []:
                m = re.match(r"^--(redis\.[a-z\-]+)=", x)
                if m:
                    given.add(m.group(1))
            for e in case["env"] or []:
                m = re.match(r"^WONDERWALL_REDIS_([A-Z_]+)=", e)
                if m:
                    given.add("redis." + m.group(1).lower().replace("_", "-"))
            given = sorted(given)
            via = "flags" if any(a.startswith("--sso.enabled=") for a in case["args"] or []) else "environment"
            store_rows.add((facts["mode"], via, tuple(given)))
        small = {"note": case["note"], "args": case["args"], "env": case["env"], "disc": case["disc"],
                 "result": res, "violated_rules": bad}
        if res["code"] in (60, 95):
            ctx.violation("ingress-path-route-pattern-panic" if res["code"] == 60 else "startup-panic",
                          "the process panicked during start-up (exit status 2, stack trace) instead of starting or refusing the configuration with an error: " + res["fatal"][:160],
                          small)
            continue
        if started == (not bad):
            continue
        # the documented rules and the binary disagree: a violation in every case. To give it a stable name, see
        # whether reading the Azure JWK from the variable the CODE binds, or taking the CODE's idporten default acr,
        # explains the binary's behaviour.
        named = False
        alts = []
        D = docs()
        doc_jwk = D["penv"]["azure"]["openid.client-jwk"]
        doc_acr = D["provider_defaults"]["idporten"]["openid.acr-values"]
        for key, reading, what, refusal_classes in (
            ("docs-azure-jwk-env-name", {"azure_jwk_env": [x for x in ALT_AZURE_JWK if x != doc_jwk][0]},
             "provider=azure: docs/configuration.md names %s for the client JWK, the binary reads another variable "
             "(a configuration following the documentation is refused for missing credentials / the documented variable is ignored)" % doc_jwk,
             (40, 41)),
            ("docs-idporten-default-acr", {"idporten_acr": [x for x in ALT_IDPORTEN_ACR if x != doc_acr][0]},
             "provider=idporten: the documented default of openid.acr-values is %s, the binary behaves as if it were another value" % doc_acr,
             (46,)),
        ):
            alt_bad, _ = rules(case, **reading)
            alts.append((key, what, alt_bad))
            # the other reading names the disagreement only if it explains the binary's answer: same decision, and for a
            # refusal the binary's own error must be the one that reading predicts (credentials / acr), not something else
            if started == (not alt_bad) and (started or res["code"] in refusal_classes):
                ctx.violation(key, what, small)
                named = True
                break
        if named:
            continue
        for key, what, alt_bad in alts:
            # two disagreements at once: the named documentation mismatch plus something else
            if len(alt_bad) < len(bad) and started:
                ctx.violation(key, what, small)
                bad = alt_bad
                break
        if started:
            if bad == ["negative-wait-before"]:
                ctx.violation("negative-wait-before-accepted",
                              "a negative shutdown-wait-before-period passes start-up (the shutdown deadline becomes graceful - wait-before > graceful)", small)
            elif bad == ["encryption-key"] and facts.get("blank_key"):
                ctx.violation("blank-encryption-key-accepted",
                              "a supplied encryption key that decodes to 0 bits (only CR/LF) is accepted; the process runs with a random ephemeral key",
                              small)
            else:
                ctx.violation("starts-despite-" + bad[0], "process listens although documented rule(s) %s are violated" % bad, small)
        else:
            code = res["code"]
            if code == 60:
                ctx.violation("ingress-path-route-pattern-panic",
                              "a valid http(s) ingress whose path contains '*' or an unbalanced '{' makes router.New panic (exit 2) instead of starting or a clean error",
                              small)
            else:
                ctx.violation("refused-valid-config-%d" % code, "a configuration satisfying every documented rule is refused", small)
    return n, len(sig), listening, refused, store_rows


def run(ctx):
    pre = ctx.path("startcfg")
    from lib.machine import code_flags
    fl = code_flags()
    D = docs()   # a documentation file that cannot be parsed is a check error, before anything is run
    args = ["startcfg", "-out", pre, "-seed", str(ctx.seed), "-tier", ctx.tier]
    for key, opt in (("enc_key_strict", "-enc-key-strict"), ("wait_nonneg", "-wait-nonneg"), ("ingress_pattern_strict", "-ingress-pattern-strict")):
        if fl.get(key):
            args.append(opt)
    out, dt = vf.run_driver(args)
    ctx.extra["documentation_parsed"] = {"penv": D["penv"], "provider_defaults": D["provider_defaults"],
                                         "defaults_used": {k: D["defaults"][k] for k in NEEDED_DEFAULTS}}
    ctx.extra["code_flags"] = {k: fl.get(k) for k in ("enc_key_strict", "wait_nonneg", "ingress_pattern_strict")}
    ctx.timings["startcfg"] = round(dt, 2)
    ctx.extra["driver_summary"] = out.strip().split("\n")[-1]
    ctx.correspondence("key: real crypto.EncryptionKeyOrGenerate vs Model/Config.v cf_key_check (base64 length model)",
                       pre + "-key.in", pre + "-key.impl")
    ctx.correspondence("val: real Config.Validate / ingress.ParseIngresses / router.New (in process) vs cf_validate / cf_parse_ingresses / cf_router",
                       pre + "-val.in", pre + "-val.impl")
    ctx.correspondence("run: built binary (flags x WONDERWALL_* x provider variables x discovery documents) vs cf_run outcome class",
                       pre + "-run.in", pre + "-run.impl",
                       note="outcome class = number of the first failing check, from the binary's fatal message; 0 = TCP connect to --bind-address succeeded")
    n, nsig, nl, nr, store_rows = monitor(ctx, pre + "-run.cases")
    ctx.nontrivial += nsig
    ctx.extra["binary_runs"] = {"total": n, "listening": nl, "refused": nr}
    # the clause "SSO modes need a shared store" must have been exercised for both SSO modes x both channels, with redis.tls
    # left at its default (not forced off by the harness) among them: a sweep without such rows proves nothing about the clause
    need = [(m, via) for m in ("server", "proxy") for via in ("flags", "environment")]
    have = {(m, via) for m, via, given in store_rows if "redis.tls" not in given}
    ctx.extra["sso_without_store_rows"] = {"distinct": len(store_rows), "with_redis_tls_at_its_default": sorted("%s/%s" % x for x in have)}
    missing = [x for x in need if x not in have]
    if missing:
        raise vf.InfraError("C20: no binary run with an SSO mode, no store setting and redis.tls at its default for %s" % missing)
    with open(pre + "-run.cases") as f:
        for i, line in enumerate(f):
            if i % 97 == 0:
                c = json.loads(line)
                ctx.samples.append({"note": c["note"], "args": c["args"], "env": c["env"], "outcome": c["result"]["outcome"],
                                    "class": c["result"]["code"], "fatal": c["result"]["fatal"][:200]})
    ctx.rule = ("binary runs: valid base configuration per mode (standalone, SSO server, SSO proxy) x provider (openid, azure, idporten); "
                "every pool value of every setting on the flag and on the WONDERWALL_ variable; provider-specific variables in every "
                "subset; 15 discovery-document shapes; 2-, 3- and 4..11-fold random mutations (which failing check comes first); "
                "support lists, full cross product: configured acr {unset, idporten-loa-substantial, idporten-loa-high, Level3, Level4, other-acr, Level5} x every subset of "
                "advertised {substantial, high, Level3, Level4, other-acr}; configured locale {unset, nb, en, se, xx, nn} x subsets of {nb, en, se, xx}; configured "
                "signing alg {unset, RS256, ES256, PS256, none, HS256, XX} x subsets of {RS256, ES256, PS256, none}; each in standalone and SSO server x openid/azure/idporten "
                "(SSO proxy: one row per configured value); "
                "shared store: {SSO server, SSO proxy, standalone control} x {everything on flags, everything on WONDERWALL_ variables} x {redis.address and redis.uri absent, "
                "address empty, uri empty, both empty} x {nothing else, redis.password, redis.username, redis.tls=true, redis.tls=false, redis.connection-idle-timeout=30 / -1, "
                "tls=false + password, all four} with redis.tls NOT forced (flag default true), malformed redis.tls / idle-timeout, and controls with a store by redis.uri (tls at its default) / redis.address (tls=false); "
                "distinct_nontrivial = distinct (listening, outcome class, first violated documented rules) signatures. "
                "In-process: key strings exhaustive over {A = LF ! /} up to length 7 + encodings of 0..40 bytes and damaged variants + random; "
                "ingress strings = every sequence of up to 3 of 30 URL pieces, secure and insecure, + random longer; pools x single deviations x random combinations of the other Validate fields")
    ctx.assumptions += [
        "the Gallina model is tied to the code only by the differential (same inputs through the real code / the built binary and the extracted model)",
        "abstract in the model, taken from the libraries by the driver: jwk.ParseKey, redis.ParseURL (finite oracle sets over the value pools), "
        "strconv.ParseBool/ParseInt and time.ParseDuration (table checked against the standard library at driver start), http.Get reachability of the discovery URL, "
        "JSON decoding / url.Parse of end_session_endpoint / jwk cache fetch as booleans of the discovery-document record",
        "environment kept healthy and outside the model: Redis reachable when configured (miniredis speaks plain TCP without authentication: every case that names a store by "
        "redis.address carries redis.tls=false and no redis.password / redis.username; redis.tls is a setting of the case, not a constant of the harness - the cases without a store leave it at its default true), "
        "bind addresses free (fresh ports per process; 'address already in use' is retried), no OTEL_* variables, no config file in the working directory or /etc",
        "pflag StringSlice CSV parsing is modelled as splitting on ',' (generated values contain no quotes or newlines in list settings)",
        "chi regular-expression route parameters ({name:regex}) in ingress paths are outside the model; strings.EqualFold is modelled on ASCII",
        "observable: a TCP connect to --bind-address within 8 s (typically 50 ms) vs exit status and fatal log line; what the server does after listening is not C20's subject",
        "monitor URL well-formedness uses Python's urlsplit on the pool values (clean URLs); the exhaustive ingress strings are compared model-vs-code only",
        "an unknown openid.provider value is treated as 'openid' by the code (no refusal); the monitor follows that reading",
    ]
