"""Parsing of the `cscript` lines of `wwh cookies` / `wwh retry` (inputs and implementation outputs).
Shared by the C14 and C17 monitors. Nothing here depends on the Coq model."""
import binascii
from urllib.parse import urlsplit


def unhex(t):
    return "" if t == "-" else binascii.unhexlify(t).decode("latin1")


def unhex_list(t):
    return [] if t == "~" else [unhex(x) for x in t.split(",")]


NCFG = 13  # configuration tokens on every cscript / cval / cmatch / crl line


def driver_flags():
    """command-line flags telling the drivers which variant of the code the model has to follow"""
    from lib.machine import code_flags
    f = code_flags()
    out = []
    if f.get("ingress_segment_prefix"):
        out.append("-seg-prefix")
    if f.get("ratelimit_ceil"):
        out.append("-rl-ceil")
    return out


class Cfg:
    def __init__(self, toks):
        (sec, ss, pre, ing, sso, dom, nm, leg, rl, logins, win, seg, ceil) = toks
        self.secure = sec == "1"
        self.samesite = unhex(ss)
        self.prefix = unhex(pre)
        self.ingresses = unhex_list(ing)
        self.sso = sso == "1"
        self.domain = unhex(dom)
        self.sso_name = unhex(nm)
        self.legacy = leg == "1"
        self.rl = rl == "1"
        self.logins = int(logins)
        self.window = int(win)
        # variants of the code under test (lib/code_flags.json), carried along for the model only
        self.seg_prefix = seg == "1"
        self.rl_ceil = ceil == "1"

    # names as documented: <prefix>.session etc.; in SSO mode the configured session cookie name
    def name(self, kind):
        base = self.sso_name if self.sso else self.prefix
        if kind == "session":
            return self.sso_name if self.sso else base + ".session"
        return base + "." + {"login": "callback", "logout": "logout", "retry": "retry"}[kind]

    def ingress_parts(self):
        out = []
        for raw in self.ingresses:
            u = urlsplit(raw)
            out.append((u.scheme, u.hostname or "", u.netloc, u.path.rstrip("/")))
        return out

    def leftover(self):
        """A STANDALONE configuration (sso.enabled=false) that still carries sso.* settings (harness cookies.go leftoverSSO:
        the settings not on the input line are derived from the domain by the same rule). None otherwise."""
        if self.sso or (self.domain == "" and self.sso_name == ""):
            return None
        return {"sso.enabled": False, "sso.domain": self.domain, "sso.session-cookie-name": self.sso_name,
                "sso.mode": "proxy" if self.domain.startswith(".") else "server", "sso.server-url": "https://sso.example.com",
                "sso.server-default-redirect-url": "https://www.example.com/"}

    def describe(self):
        d = {"secure": self.secure, "same_site": self.samesite, "prefix": self.prefix, "ingresses": self.ingresses,
             "sso_server": self.sso, "sso_domain": self.domain, "sso_session_cookie_name": self.sso_name,
             "legacy_cookie": self.legacy, "ratelimit": [self.rl, self.logins, self.window]}
        if self.leftover():
            d["standalone_mode_with_leftover_sso_settings"] = self.leftover()
        return d


class Script:
    """One input line: configuration, browser origin, probes, items."""

    def __init__(self, line):
        t = line.split()
        assert t[0] in ("cscript", "cpscript")
        self.cfg = Cfg(t[1:1 + NCFG])
        o = 1 + NCFG
        self.https = t[o] == "1"
        self.host = unhex(t[o + 1])
        self.hostport = unhex(t[o + 2])
        self.now0 = int(t[o + 3])
        # cpscript: an SSO deployment with an SSO proxy next to the SSO server; items of kind "P" are requests to the proxy's origin
        self.proxy = None
        if t[0] == "cpscript":
            self.proxy = {"https": t[o + 4] == "1", "host": unhex(t[o + 5]), "hostport": unhex(t[o + 6]), "ingresses": unhex_list(t[o + 7])}
            o += 4
        np_ = int(t[o + 4])
        k = o + 5
        self.probes = []
        for _ in range(np_):
            self.probes.append((t[k] == "1", unhex(t[k + 1]), unhex(t[k + 2])))
            k += 3
        self.items = []
        while k < len(t):
            if t[k] in ("R", "P"):
                self.items.append({"kind": "R", "dt": int(t[k + 1]), "ep": t[k + 2], "path": unhex(t[k + 3]), "fault": t[k + 4],
                                   "prompt": t[k + 5] == "1", "proxy": t[k] == "P"})
                k += 6
            else:
                self.items.append({"kind": "W", "via": t[k + 1] == "1", "ep": t[k + 2], "path": unhex(t[k + 3]),
                                   "faults": [] if t[k + 4] == "~" else t[k + 4].split(",")})
                k += 5

    def base(self, proxy=False):
        if proxy:
            return ("https://" if self.proxy["https"] else "http://") + self.proxy["hostport"]
        return ("https://" if self.https else "http://") + self.hostport

    def describe(self):
        d = self.cfg.describe()
        if self.proxy:
            d["sso_proxy_in_front_of_an_application"] = {"ingresses": self.proxy["ingresses"], "relays_to_sso_server": self.base()}
        return d


def parse_probes(toks, probes):
    out = []
    k = 0
    for p in probes:
        n = int(toks[k])
        k += 1
        cs = []
        for _ in range(n):
            cs.append((unhex(toks[k]), toks[k + 1]))
            k += 2
        out.append((p, cs))
    return out


def parse_output(line, script):
    """-> list parallel to script.items: dict(status, cookies, probes) or dict(chain, probes)."""
    segs = [s.strip() for s in line.split(";")[1:]]
    res = []
    for it, seg in zip(script.items, segs):
        left, _, right = seg.partition("|")
        lt = left.split()
        probes = parse_probes(right.split(), script.probes)
        if it["kind"] == "R":
            n = int(lt[1])
            cookies = []
            for i in range(n):
                c = lt[2 + 9 * i: 2 + 9 * (i + 1)]
                cookies.append({"name": unhex(c[0]), "value": c[1], "domain": unhex(c[2]), "path": unhex(c[3]), "samesite": c[4],
                                "secure": c[5] == "1", "httponly": c[6] == "1", "maxage": int(c[7]), "epoch": c[8] == "1"})
            res.append({"status": int(lt[0]), "cookies": cookies, "probes": probes})
        else:
            n = int(lt[0])
            res.append({"chain": [int(x) for x in lt[1:1 + n]], "probes": probes})
    return res


# cause of an injected failure: the part of the fault token after the dot (arranged on the real stack by the driver)
CAUSES = {
    "": "provider refuses the pushed authorization request with 4xx (login) / error parameter, bad state or missing login cookie (callback)",
    "5": "provider endpoint (login: PAR, callback: token) answers 5xx, for the whole retry budget where there is one",
    "m": "provider endpoint answers 2xx with a body that does not decode",
    "t": "provider endpoint accepts the connection and never answers; the client's own 10 s timeout fires",
    "x": "provider endpoint never answers and the request's context is cancelled after 1 s",
    "r": "provider refuses the connection",
    "s": "every session-store operation fails",
    "st": "every session-store operation fails with a deadline error (context.DeadlineExceeded in the chain)",
    "sc": "every session-store operation fails with a cancellation (context.Canceled in the chain)",
}


def fault_cause(f):
    """'e500.t' -> ('e500', 't'); 'n' -> ('n', None)"""
    if not f.startswith("e"):
        return f, None
    base, _, cause = f.partition(".")
    return base, cause


def describe_fault(f):
    base, cause = fault_cause(f)
    if cause is None:
        return {"n": "no fault", "s": "no sid"}.get(f, f)
    return "%s: %s" % (f, CAUSES.get(cause, "cause " + cause))


def describe_item(script, it):
    if it["kind"] == "R":
        return "GET %s%s%s [%s] after %dns%s" % (script.base(it.get("proxy", False)), it["path"], "?prompt=login" if it["prompt"] else "",
                                               {"n": "no fault", "s": "no sid"}.get(it["fault"], "fault " + describe_fault(it["fault"])), it["dt"],
                                               " (to the SSO proxy)" if it.get("proxy") else "")
    causes = sorted({f for f in it["faults"] if fault_cause(f)[1]})
    return "browser follows redirects from %s%s with per-request faults %s%s%s" % (
        script.base(), it["path"], ",".join(it["faults"]), " (through the provider)" if it["via"] else "",
        "".join("; " + describe_fault(f) for f in causes))


def name_collisions(cookies):
    """Set-Cookie headers of ONE response that share (name, domain, path) although they are not the same header twice:
    a browser files cookies under exactly that triple, so it keeps only the last of them - whatever the earlier one
    carried (a counter, a session) is gone the moment it arrives. Returns the list of colliding pairs."""
    out = []
    seen = {}
    for c in cookies:
        k = (c["name"], c["domain"], c["path"])
        if k in seen and seen[k] != c:
            out.append({"name": c["name"], "domain": c["domain"], "path": c["path"],
                        "first": {"value": seen[k]["value"], "max_age": seen[k]["maxage"]},
                        "second": {"value": c["value"], "max_age": c["maxage"]}})
        seen[k] = c
    return out
