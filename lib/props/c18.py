"""C18 — secrets never appear in logs."""
import json
import os
import re
import subprocess

from lib import machine, vf
from lib.machine import code_flags


def build_binary(ctx):
    """go build of /repo's cmd/wonderwall (current working tree) into the build directory."""
    out = os.path.join(vf.BUILD, "bin", "wonderwall-%d" % os.getpid())
    os.makedirs(os.path.dirname(out), exist_ok=True)
    env = vf.goenv()
    env.pop("GOEXPERIMENT", None)
    p = subprocess.run(["go", "build", "-o", out, "./cmd/wonderwall"], cwd=vf.REPO, env=env, stdout=subprocess.PIPE, stderr=subprocess.STDOUT, text=True, timeout=900)
    if p.returncode != 0:
        raise vf.InfraError("building /repo's binary failed:\n" + p.stdout[-3000:])
    return out


def site_regexes():
    d = json.load(open(os.path.join(vf.BUILD, "logsites.json")))
    regs = []
    for s in d["sites"]:
        f = s.get("format") or ""
        if not f or s["method"] in ("WithField", "WithFields", "WithError", "fields[]"):
            continue
        pat = re.escape(f)
        pat = re.sub(r"%[-+# 0-9.]*[a-zA-Z]", ".*", pat.replace("\\%", "%"))
        regs.append(re.compile("^" + pat + "$", re.S))
    return regs, d


def run(ctx):
    sites_info = None
    regs, sites_info = site_regexes()
    total_entries = 0
    all_msgs = set()
    # (a) every log line of histories, fault sequences and schedules of the session machine
    for mode, n in (("history", 300), ("faults", 300), ("conc", 60)):
        if ctx.tier == "thorough":
            n *= 10
        infile, implfile = machine.run_machine(ctx, "logs-" + mode, mode, n, ctx.seed)
        # the machine correspondence itself belongs to C01..C11; here only the logs are used
        for i in range(16):
            p = ctx.path("logs-%s-%d.logscan" % (mode, i))
            if not os.path.exists(p):
                continue
            for line in open(p):
                if not line.strip():
                    continue
                d = json.loads(line)
                total_entries += d["entries"]
                for leak in d["leaks"] or []:
                    ctx.violation("c18-secret-in-log:" + leak.split(" in: ")[0], "a log line contains a secret: " + leak[:600], {"mode": mode, "leak": leak[:2000]})
                all_msgs |= set(d["messages"] or [])
        ctx.evals += sum(1 for _ in open(infile))
    # (a') proxied requests whose upstream round trip fails (the reverse proxy's error path), with and without the ID-token header
    pre = ctx.path("logs-proxyerr")
    vf.run_driver(["proxyerr", "-out", pre, "-seed", str(ctx.seed), "-tier", ctx.tier])
    for line in open(pre + ".obs"):
        d = json.loads(line)
        total_entries += d["entries"]
        ctx.evals += 1
        for leak in d["leaks"] or []:
            ctx.violation("c18-secret-in-log:" + leak.split(" in: ")[0], "a log line contains a secret: " + leak[:600],
                          {"mode": "proxyerr", "config": {k: d[k] for k in ("redis", "sso", "id_token_header", "upstream_failure")}, "leak": leak[:2000]})
        all_msgs |= set(d["messages"] or [])
    # (a'') the cookie / store-value substitution matrix of the C09 driver: cookies sealed under another deployment's key, other cookie
    # types, truncations, bit flips, damaged store values - every presented value is a credential somewhere and must not be logged
    pre = ctx.path("logs-crypto")
    vf.run_driver(["crypto", "-out", pre, "-seed", str(ctx.seed), "-tier", "quick"])
    for line in open(pre + ".obs"):
        d = json.loads(line)
        if d.get("kind") != "logscan":
            continue
        total_entries += d["entries"]
        ctx.evals += 1
        for leak in d["leaks"] or []:
            ctx.violation("c18-secret-in-log:" + leak.split(" in: ")[0], "a log line contains a secret: " + leak[:600], {"mode": "crypto-swap-matrix", "redis": d["redis"], "leak": leak[:2000]})
        all_msgs |= set(d["messages"] or [])
    # (b) login / callback flows (PAR, private-key client authentication, every callback failure)
    for mode in ("login", "callback"):
        pre = ctx.path("logs-auth-" + mode)
        args = ["auth", "-mode", mode, "-out", pre, "-seed", str(ctx.seed), "-tier", ctx.tier]
        if code_flags().get("login_cookie_strict"):
            args.append("-cookie-strict")
        if code_flags().get("ingress_segment_prefix"):
            args.append("-seg-prefix")
        vf.run_driver(args)
        for line in open(pre + ".obs"):
            d = json.loads(line)
            if d.get("kind") != "logscan":
                continue
            total_entries += d["entries"]
            for leak in d["leaks"] or []:
                ctx.violation("c18-secret-in-log:" + leak.split(" in: ")[0], "a log line contains a secret: " + leak[:600], {"mode": "auth-" + mode, "leak": leak[:2000]})
            all_msgs |= set(d["messages"] or [])
    # every observed message must come from a site of the regenerated table
    unknown_msgs = []
    for m in sorted(all_msgs):
        level, _, text = m.partition(" ")
        if not any(r.match(text) for r in regs):
            unknown_msgs.append(m)
    # messages of third-party code or of sites whose format is not a literal are listed, not failed
    ctx.extra["log_lines_scanned"] = total_entries
    ctx.extra["distinct_messages"] = len(all_msgs)
    ctx.extra["messages_not_matching_a_literal_format_site"] = unknown_msgs[:20]
    if sites_info["unknown"]:
        ctx.broken.append({"kind": "correspondence", "name": "log site table: unclassified argument expressions", "first": sites_info["unknown"][:10]})
    # (c) the built binary's start-up output with each secret supplied in each way
    binp = build_binary(ctx)
    try:
        pre = ctx.path("banner")
        args = ["banner", "-out", pre, "-bin", binp, "-seed", str(ctx.seed), "-tier", ctx.tier]
        if code_flags().get("banner_uri_masked"):
            args.append("-uri-masked")
        out, dt = vf.run_driver(args, timeout=1500)
        ctx.timings["banner"] = round(dt, 2)
    finally:
        try:
            os.remove(binp)
        except OSError:
            pass
    ctx.correspondence("banner: built binary started with every subset of secrets x supply channel x provider vs Model/Logs.v banner_leaks", pre + ".in", pre + ".impl")
    nb = 0
    for line in open(pre + ".obs"):
        d = json.loads(line)
        nb += 1
        if not d["banner_seen"]:
            ctx.violation("c18-banner-missing", "the start-up banner was not produced (cannot be scanned)", d)
        for s in d["leaked"] or []:
            ctx.violation("c18-banner-leaks-" + s, "the start-up output contains the configured %s (supplied by %s, provider %s)" % (s, d["channel"], d["provider"]), d)
    # (d) redis.uri: spellings of the embedded password. Correspondence: the printed Redis.URI field, byte for byte, against
    # Model/Logs.v:banner_uri_field (redactURIPassword over the net/url model). Monitor (property text: "the Redis password
    # ... embedded in the Redis URI" must not be in any log line): the whole output is scanned for the password as written
    # in the URI, decoded, and for each of its two distinctive halves.
    ctx.correspondence("banner: redis.uri field of the built binary for a sweep of password spellings (flag / env) vs Model/Logs.v banner_uri_field",
                       pre + "-uri.in", pre + "-uri.impl")
    nu, spellings, not_userinfo = 0, set(), []
    for line in open(pre + "-uri.obs"):
        d = json.loads(line)
        nu += 1
        spellings.add((d["spelling"], d["printed_uri_field"]))
        if not d["banner_seen"]:
            ctx.violation("c18-banner-missing", "the start-up banner was not produced (cannot be scanned)", d)
        if not d["found"]:
            continue
        if not d["userinfo_by_syntax"]:
            # no "//" (opaque URI) or digits before a literal slash (host:port/path): by URI syntax, for net/url and for the Redis
            # client the value has no userinfo, hence no password; listed, not judged
            not_userinfo.append({"redis_uri": d["redis_uri"], "printed": d["printed_uri_field"], "found": d["found"]})
            continue
        forms = [f for f in d["found"] if not f.endswith("half")] or ["part"]
        ctx.violation("c18-banner-leaks-redis-uri-password:" + "+".join(f.split()[0] + ("-" + f.split()[1] if f.startswith("as") else "") for f in forms),
                      "the start-up output contains the password embedded in redis.uri (%s; spelling: %s; supplied by %s): found %s"
                      % (d["redis_uri"], d["spelling"], d["channel"], ", ".join(d["found"])), d)
    ctx.extra["redis_uri_spellings_started"] = nu
    ctx.extra["redis_uri_text_that_is_no_userinfo_by_syntax_printed_verbatim"] = not_userinfo[:4]
    nb += len(spellings)
    ctx.nontrivial += len(all_msgs) + nb
    ctx.samples += [{"message": m} for m in sorted(all_msgs)[:5]]
    ctx.extra["log_sites_in_source"] = len(sites_info["sites"])
    ctx.rule = ("every log entry (debug level, logrus hook) produced by the real stack in session-machine histories, fault sequences and schedules and in the login / callback "
                "cross products is scanned for every secret the harness minted or configured (tokens, verifiers, cookie values, data keys, deployment key, client secret, "
                "private JWK, assertions; raw / base64 / base64url); the built binary is started with all 32 subsets of {encryption key, client JWK, client secret, redis password, "
                "password inside redis.uri} x {flag, WONDERWALL_* env, provider-specific env} x {openid, idporten, azure} and its output scanned; "
                "redis.uri with the password spelled: alphanumeric, each RFC 3986 sub-delimiter literally, literal ':' and '@', '@ : / ? # %' and the sub-delimiters "
                "percent-encoded in upper and lower case, unnecessarily encoded letters / digits / marks, encoded space, non-ASCII and control characters, spellings "
                "url.Parse rejects (bad escapes, literal '/ ? #', space, non-ASCII, brackets), empty password, password only, user only, no / empty userinfo, encoded "
                "and sub-delimiter user names, IPv4 / IPv6 / zone / named hosts, path, query parameters, fragment, redis / rediss / unix / upper-case / no scheme, "
                "every sequence of one and two (thorough: three) pieces of {a ! * ( ' $ : @ %2f %2F %41 %25}, each through flag and environment; the output "
                "(raw and JSON-decoded) is scanned for the password as written, decoded, and for each distinctive half; "
                "distinct_nontrivial = distinct log messages + binary starts + distinct (spelling, printed field)")
    ctx.assumptions += ["PARTIAL: the classification of log-site arguments (lib/log_classes.json) and 'provider error bodies contain no wonderwall secret' are trusted",
                        "third-party libraries' own logging is covered only by the dynamic scan"]
