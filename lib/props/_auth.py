"""Shared driver for C02 / C13 (Model/Auth.v, `wwh auth`)."""
import json

from lib import vf
from lib.machine import code_flags


def run_auth(ctx, mode):
    pre = ctx.path("auth-" + mode)
    args = ["auth", "-mode", mode, "-out", pre, "-seed", str(ctx.seed), "-tier", ctx.tier]
    if code_flags().get("login_cookie_strict"):
        args.append("-cookie-strict")
    if code_flags().get("ingress_segment_prefix"):
        args.append("-seg-prefix")
    out, dt = vf.run_driver(args)
    ctx.timings["auth-" + mode] = round(dt, 2)
    ctx.correspondence("auth/%s: real router + handlers + openid client + fake provider vs Model/Auth.v (symbolic request, cookie and back-channel terms)" % mode,
                       pre + ".in", pre + ".impl")
    # (the driver interleaves "logscan" records - consumed by C18 - with the one-per-case observations)
    obs = [o for o in (json.loads(l) for l in open(pre + ".obs") if l.strip()) if o.get("kind") != "logscan"]
    ins = [l.rstrip("\n") for l in open(pre + ".in")]
    impl = [l.rstrip("\n") for l in open(pre + ".impl")]
    if not (len(obs) == len(ins) == len(impl)):
        raise RuntimeError("auth driver: %d observations, %d inputs, %d outputs" % (len(obs), len(ins), len(impl)))
    return obs, ins, impl
