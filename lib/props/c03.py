"""C03 — only an ID token passing every OpenID Connect check can create a session."""
import json

from lib import vf


def must_hold(d):
    """conditions the property demands of an accepted token response, from the generator's selectors;
    returns the list of violated ones (boundary points exactly at the skew are tolerated either way)"""
    bad = []
    if d["shape"] != "ok":
        bad.append("response without a well-formed string id_token")
    # (with a stale cache - the cached key set predates the rotation that introduced k0 - the property allows either outcome for a
    #  token signed by k0, which IS currently published: rejecting it, or accepting it after a refresh; every other check still binds)
    sig_ok = (d["sig"] == "rs-k0" and d["keys"] in ("alg", "noalg-mutated", "usesig")) or d["sig"] == "es-e0"
    if not sig_ok:
        bad.append("signature not valid under a published key with that key's algorithm (sig=%s keys=%s)" % (d["sig"], d["keys"]))
    if d["iss"] != "ok":
        bad.append("iss is not the provider issuer")
    # the audiences the generator put into the token, judged against what the OPERATOR configured as trusted (openid.audiences =
    # ["trusted-aud"]; the client id itself): the empty string, the deployment's resource indicator (set or not), the provider's
    # issuer and any other name are untrusted additional audiences
    if d["aud"] not in ("str", "one", "trusted", "twice", "trustedfirst"):
        bad.append("aud lacks the client id / has an untrusted additional audience (aud shape %s, resource indicator %s)"
                   % (d["aud"], "configured" if d.get("res") else "not configured"))
    if d["exp"] in ("m6", "missing", "epoch"):
        bad.append("exp not within the permitted skew (exp=%s)" % d["exp"])
    if d["iat"] == "p6":
        bad.append("iat in the future beyond the skew")
    if d["nbf"] == "p6":
        bad.append("nbf in the future beyond the skew")
    if d["nonce"] != "ok":
        bad.append("nonce is not this attempt's nonce")
    if d["sub"] == "missing":
        bad.append("sub missing")
    if d["sidreq"] and d["sid"] != "present":
        bad.append("sid missing although required")
    cfg = d["acrcfg"]
    if cfg:
        allowed = {"substantial": ("substantial", "high"), "Level3": ("substantial", "high"), "high": ("high",), "Level4": ("high",), "other": ("other",)}[cfg]
        if d["acr"] not in allowed:
            bad.append("acr below the requested level (configured %s, token %s)" % (cfg, d["acr"]))
    return bad


def run(ctx):
    pre = ctx.path("idtoken")
    from lib.machine import code_flags
    args = ["idtoken", "-out", pre, "-seed", str(ctx.seed), "-tier", ctx.tier]
    if code_flags().get("idtoken_exp_strict"):
        args.append("-exp-strict")
    out, dt = vf.run_driver(args)
    ctx.timings["idtoken"] = round(dt, 2)
    ctx.correspondence("idtoken: real login + callback handlers with a fake provider minting the faulty token response (jwx verification + validation, real RSA/ECDSA/HMAC signatures, real keySetMutator, cached vs refreshed JWKS) vs Model/IdToken.v",
                       pre + ".in", pre + ".impl")
    n = acc = 0
    distinct = set()
    dist = {}
    for line in open(pre + ".obs"):
        d = json.loads(line)
        n += 1
        key = tuple(d[k] for k in ("sig", "keys", "iss", "aud", "exp", "iat", "nbf", "nonce", "sub", "sid", "sidreq", "acr", "acrcfg", "shape", "jwks", "res", "now_off_ms"))
        # end-to-end effect: a rejected response leaves no session cookie and no store entry; an accepted one leaves exactly one usable session
        if not d["accepted"] and (d["session_cookie"] or d.get("store_keys_after", 0) != d.get("store_keys_before", 0)):
            ctx.violation("c03-session-after-rejection", "the callback answered %s but a session cookie / store entry was produced" % d["status"], {"point": d["point"]})
        if d["accepted"] and not (d["session_usable"] and d.get("store_keys_after", 0) == d.get("store_keys_before", 0) + 1):
            ctx.violation("c03-accepted-without-session", "the callback redirected with a session cookie but no usable session exists", {"point": d["point"]})
        distinct.add(key)
        if d["accepted"]:
            acc += 1
            bad = must_hold(d)
            if bad:
                k = "c03-epoch-exp-accepted" if bad == ["exp not within the permitted skew (exp=epoch)"] else "c03-invalid-token-accepted"
                if len(bad) == 1 and bad[0].startswith("aud lacks"):
                    # one finding per audience shape and resource-indicator setting
                    k = "c03-untrusted-audience-accepted:%s%s" % (d["aud"], "+resource-indicator-configured" if d.get("res") else "")
                ctx.violation(k, "token response accepted although: " + "; ".join(bad), {"point": d["point"], "checks_failed": bad})
        for dim in ("sig", "keys", "aud", "exp", "shape", "jwks", "res"):
            dist.setdefault(dim, {}).setdefault(str(d[dim]), 0)
            dist[dim][str(d[dim])] += 1
    base_ok = False
    for line in open(pre + ".obs"):
        d = json.loads(line)
        if not must_hold(d) and d["exp"] in ("far",) and d["iat"] == "past" and d["nbf"] in ("missing", "past") and d["sub"] == "ok" and (d["jwks"] == "fresh" or d["sig"] == "es-e0"):
            if not d["accepted"]:
                ctx.violation("c03-valid-token-rejected", "a token passing every check was rejected: " + d["error"], {"point": d["point"]})
            base_ok = True
    ctx.nontrivial += len(distinct)
    ctx.extra["input_distribution"] = dict(dist, points=n, accepted=acc)
    ctx.samples.append({"first_point": json.loads(open(pre + ".obs").readline())["point"]})
    ctx.rule = ("fault lattice {signature kind x key-set shape x iss {right, foreign, missing, right+'/', upper-cased, right+suffix, right minus last character} x aud shape (single string, one element, + configured trusted audience, + named untrusted, "
                "+ empty string, + the deployment's resource indicator, client id twice, trusted + untrusted, + the issuer, trusted first, without the client id, none) "
                "x resource indicator configured / not x exp x iat x nbf x nonce x sub x sid x sid-required x acr (incl. a substring, an extension and another letter case of the configured non-ID-porten level) x configured acr x response shape x "
                "cached-JWKS freshness x sub-second clock offset}: baseline, every single deviation and every pair of deviations (thorough: triples with six of the dimensions); tokens are assembled and signed "
                "by hand (RS256 / PS256 / ES256 / HS256-over-public-key / none)")
    ctx.assumptions += ["ideal signatures (real RSA / ECDSA / HMAC are exercised but not modelled)", "jwx v2.1.4 behaviour is modelled, tied by this lattice"]
