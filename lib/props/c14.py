"""C14 — cookies carry safe attributes and are cleared with the scope they were set with."""
from lib import vf
from lib.props import _cookie as ck

LOGOUT_OK = {"O": (302,), "K": (204,), "F": (200, 202)}


def seg_prefix(p, path):
    return p == "" or path == p or path.startswith(p + "/")


def matched_ingress_path(script, path):
    """Longest ingress path of the request's host that contains the request path (segment-wise); None if none."""
    best = None
    for (_, _, netloc, ipath) in script.cfg.ingress_parts():
        if netloc.lower() == script.hostport.lower() and seg_prefix(ipath, path):
            if best is None or len(ipath) > len(best):
                best = ipath
    return best


def scope_key(was, cleared, default):
    """set under ingress path p, cleared under q: nested (one contains the other) or unrelated ingress paths"""
    stale = [w for w in (was or []) if tuple(w) not in [tuple(c) for c in cleared]]
    if stale and cleared:
        p, q = stale[0][1].rstrip("/"), cleared[0][1].rstrip("/")
        return "c14-nested-ingress-clear-path" if (seg_prefix(p, q) or seg_prefix(q, p)) else "c14-cross-ingress-clear-path"
    return default


def visible(probes, host, name):
    """probe origins of `host` at which the jar would send a cookie called `name`"""
    return [("https" if p[0] else "http") + "://" + p[1] + p[2] for (p, cs) in probes if p[1] == host and any(n == name for n, _ in cs)]


def monitor_scripts(ctx, infile, implfile):
    sigs = set()
    n_leftover = 0  # answers observed under standalone configurations with left-over sso.* settings
    with open(infile) as fi, open(implfile) as fo:
        for li, lo in zip(fi, fo):
            if not li.startswith(("cscript ", "cpscript ")):
                continue
            sc = ck.Script(li)
            cfg = sc.cfg
            res = ck.parse_output(lo, sc)
            # the hosts this browser visits: the session cookie must be gone at each of them after a logout
            hosts = [sc.host] + ([sc.proxy["host"]] if sc.proxy else [])
            own = {cfg.name(k): k for k in ("session", "login", "logout", "retry")}
            own["io.nais.wonderwall.logincount"] = "logincount"
            own["selvbetjening-idtoken"] = "legacy"
            last_set_path = {}
            history = []
            for it, r in zip(sc.items, res):
                history.append(ck.describe_item(sc, it))
                if it["kind"] != "R":
                    continue
                case = {"config": sc.describe(), "history": list(history), "status": r["status"],
                        "set_cookie": [c for c in r["cookies"]]}
                px = it.get("proxy", False)
                mp = None if px else matched_ingress_path(sc, it["path"])
                for col in ck.name_collisions(r["cookies"]):
                    ctx.violation("c14-cookie-name-collision", "two different cookies of one response share name, domain and path "
                                  "(the browser keeps only the second: the names do not identify the cookies)", dict(case, collision=col))
                for c in r["cookies"]:
                    kind = own.get(c["name"])
                    if kind is None:
                        ctx.violation("c14-unknown-cookie", "a cookie that is none of wonderwall's documented cookies was set", case)
                        continue
                    sigs.add((kind, c["maxage"] < 0, c["domain"] != "", c["path"], c["samesite"], c["secure"], cfg.sso, it["ep"], r["status"]))
                    if not c["httponly"]:
                        ctx.violation("c14-not-httponly", "cookie without HttpOnly", case)
                    if not c["secure"]:
                        if cfg.secure:
                            ctx.violation("c14-not-secure", "cookie without Secure although secure cookies are configured", case)
                        elif any(not (s == "http" and h.lower() == "localhost") for (s, h, _, _) in cfg.ingress_parts()):
                            ctx.violation("c14-insecure-non-localhost", "insecure cookies with an ingress that is not plain-http localhost", case)
                    if c["samesite"] == "N" and cfg.samesite != "None":
                        ctx.violation("c14-samesite-none", "SameSite=None although not configured", case)
                    if kind == "login" and c["samesite"] != "L":
                        ctx.violation("c14-login-samesite", "login cookie is not SameSite=Lax", case)
                    if c["samesite"] not in ("L", "S", "N"):
                        ctx.violation("c14-samesite-missing", "cookie without a SameSite attribute", case)
                    if kind == "session" and c["maxage"] >= 0:
                        if cfg.sso:
                            if c["domain"] != cfg.domain.lstrip(".") or c["path"] != "/":
                                ctx.violation("c14-sso-session-scope", "SSO session cookie not scoped to the SSO domain with Path=/", case)
                        elif mp is not None:
                            if c["domain"] != "" or c["path"] != (mp or "/"):
                                ctx.violation("c14-session-scope", "session cookie not scoped to the matching ingress path without Domain", case)
                    # standalone mode, whatever else the configuration carries: the session cookie is host-only, also when it is
                    # cleared and on requests outside every ingress path
                    if not cfg.sso and kind == "session" and c["domain"] != "" and (c["maxage"] < 0 or mp is None):
                        ctx.violation("c14-standalone-cookie-domain", "standalone mode: session cookie %s with a Domain attribute (%s)"
                                      % ("cleared" if c["maxage"] < 0 else "set", c["domain"]), case)
                    # scopes under which this cookie was set and not yet cleared
                    if c["maxage"] >= 0:
                        last_set_path.setdefault(kind, set()).add((c["domain"], c["path"]))
                    else:
                        last_set_path.setdefault(kind, set()).discard((c["domain"], c["path"]))
                # the browser's jar after the response
                if not cfg.sso:
                    # standalone mode, "without a Domain": the browser returns the session cookie to the instance's own hosts only
                    ihosts = {h.lower() for (_, h, _, _) in cfg.ingress_parts()}
                    abroad = sorted({("https" if p[0] else "http") + "://" + p[1] + p[2] for (p, cs) in r["probes"]
                                     if p[1].lower() not in ihosts and any(n == cfg.name("session") for n, _ in cs)})
                    if abroad:
                        ctx.violation("c14-session-cookie-sent-to-other-host", "standalone mode: the browser sends the session cookie to a host that "
                                      "is none of the instance's ingress hosts", dict(case, jar_sends_session_cookie_at=abroad))
                    n_leftover += cfg.leftover() is not None
                if it["ep"] == "C" and not px:
                    left = visible(r["probes"], sc.host, cfg.name("login"))
                    if left:
                        cleared = [(c["domain"], c["path"]) for c in r["cookies"] if own.get(c["name"]) == "login" and c["maxage"] < 0]
                        was = sorted(last_set_path.get("login", ()))
                        case2 = dict(case, jar_still_sends_login_cookie_at=left, login_cookie_was_set_with=was, cleared_with=cleared)
                        ctx.violation(scope_key(was, cleared, "c14-login-cookie-survives-callback"),
                                      "login cookie still in the browser after a completed callback", case2)
                # through the SSO proxy: local and front-channel logout are logouts (relayed to the server); its /oauth2/logout only
                # sends the browser on to the server
                if it["ep"] in LOGOUT_OK and r["status"] in LOGOUT_OK[it["ep"]] and not (px and it["ep"] == "O"):
                    left = [u for h in hosts for u in visible(r["probes"], h, cfg.name("session"))]
                    if left and px:
                        ctx.violation("c14-session-cookie-survives-logout-via-sso-proxy",
                                      "session cookie still in the browser after a logout at the application's origin (SSO proxy, relayed to the "
                                      "SSO server) that answered with success",
                                      dict(case, jar_still_sends_session_cookie_at=left,
                                           session_cookie_was_set_with=sorted(last_set_path.get("session", ()))))
                    elif left:
                        cleared = [(c["domain"], c["path"]) for c in r["cookies"] if own.get(c["name"]) == "session" and c["maxage"] < 0]
                        was = sorted(last_set_path.get("session", ()))
                        case2 = dict(case, jar_still_sends_session_cookie_at=left, session_cookie_was_set_with=was, cleared_with=cleared)
                        key = scope_key(was, cleared, "c14-session-cookie-survives-logout")
                        ctx.violation(key, "session cookie still in the browser after a logout that answered with success "
                                           "(cleared with a different Path than it was set with)", case2)
                if it["ep"] == "B" and r["status"] == 302 and not px:
                    left = visible(r["probes"], sc.host, cfg.name("logout"))
                    if left:
                        ctx.violation("c14-logout-cookie-survives", "logout cookie still in the browser after the logout callback",
                                      dict(case, jar_still_sends_cookie_at=left))
    ctx.extra["answers_under_standalone_with_leftover_sso_settings"] = n_leftover
    if n_leftover == 0:
        ctx.broken.append({"kind": "harness", "name": "cookies control: no history under a standalone configuration with left-over sso.* settings", "first": {}})
    return len(sigs)


def monitor_validate(ctx, infile, implfile):
    """start-up validation: accepted with insecure cookies => every ingress plain-http localhost (from the property text)"""
    n = 0
    with open(infile) as fi, open(implfile) as fo:
        for li, lo in zip(fi, fo):
            if not li.startswith("cval "):
                continue
            cfg = ck.Cfg(li.split()[1:1 + ck.NCFG])
            o = lo.split()
            if o[0] == "V" and o[1] == "K" and not cfg.secure:
                n += 1
                for raw in cfg.ingresses:
                    low = raw.lower()
                    rest = low[len("http://"):] if low.startswith("http://") else None
                    host = None if rest is None else rest.split("/")[0].split("?")[0].split(":")[0]
                    if host != "localhost":
                        ctx.violation("c14-insecure-accepted", "configuration with insecure cookies and a non-localhost or non-http ingress starts",
                                      {"config": cfg.describe(), "ingress": raw})
    return n


def run(ctx):
    pre = ctx.path("cookies")
    out, dt = vf.run_driver(["cookies", "-out", pre, "-seed", str(ctx.seed), "-tier", ctx.tier] + ck.driver_flags())
    ctx.timings["cookies"] = round(dt, 2)
    ctx.extra["driver_counts"] = [l for l in out.split("\n") if l.startswith("cookies: ")]
    ctx.correspondence("cookies: url.ParseRequestURI/ParseIngress, Cookie.Validate, MatchingPath, Set-Cookie headers of the real router "
                       "per endpoint x outcome x configuration, net/http/cookiejar contents vs Model/CookieUrl.v, Cookie.v, Jar.v, Retry.v",
                       pre + ".in", pre + ".impl")
    nt = monitor_scripts(ctx, pre + ".in", pre + ".impl")
    nt += monitor_validate(ctx, pre + ".in", pre + ".impl")
    ctx.nontrivial += nt
    with open(pre + ".in") as fi, open(pre + ".impl") as fo:
        for i, (a, b) in enumerate(zip(fi, fo)):
            if a.startswith("cscript ") and i % 97 == 0 and len(ctx.samples) < 6:
                sc = ck.Script(a)
                ctx.samples.append({"config": sc.cfg.describe(), "history": [ck.describe_item(sc, it) for it in sc.items],
                                    "impl_and_model": b.strip()[:600]})
    ctx.rule = ("url strings: exhaustive over {h,H,:,/,l,8,?,.,-} up to length 5 + scheme x separator x host x path grid + random bytes; "
                "validation: secure x same-site x ingress pairs; MatchingPath: ingress-path sets x all request paths over {/,a,b,o,p} up to 5; "
                "browser histories: every accepted configuration (secure x ingress sets incl. nested and multi-host x SSO x same-site x prefix x legacy) "
                "+ standalone with left-over sso.* settings (sso.enabled=false with sso.domain with/without leading dot, session-cookie-name, mode server/proxy, server-url; jar probed at a sibling host under that domain) "
                "x every endpoint x success and error paths x set/clear under every pair of ingress paths + random histories; "
                "SSO deployments with both parties (real SSO proxy in front of the real SSO server router, shared store, one jar for the SSO domain): login at the server, every logout variant through the proxy and at the server, relayed error paths, random mixes; cookie names of pkg/cookie after main.go's configuration for prefix x SSO x session-cookie-name; "
                "cookie jar: exhaustive single Set-Cookie over hosts x domains x paths x secure + random sequences with expiry; "
                "distinct_nontrivial counts distinct (cookie kind, set/clear, scope, attributes, mode, endpoint, status) signatures")
    ctx.assumptions += [
        "code variant followed by the model: lib/code_flags.json ingress_segment_prefix (passed to the driver as -seg-prefix and to the model with every configuration)",
        "net/url is modelled for ASCII strings without '%', '[', ']', '@' (no escapes, IPv6 literals, userinfo); other ingress strings are classified 'unmodelled'",
        "cookie names are derived as in cmd/wonderwall/main.go:run (these lines are repeated in the driver, run itself cannot be called)",
        "browser = net/http/cookiejar without public-suffix list; hosts are names (no IP literals); Domain attributes have at least two labels or equal the host",
        "Secure cookies over plain http: cookiejar stores but never sends them; real browsers additionally treat http://localhost as trustworthy (Jar.v trust_localhost, proved but not driven)",
        "SSO domain and ingress paths contain only bytes that net/http does not sanitise away when serialising Set-Cookie",
    ]
