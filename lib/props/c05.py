"""C05 — decided on the session machine, plus a read whose reply is in flight across a logout on another replica."""
import json

from lib import vf
from lib.machine import authenticated
from lib.props import _mach

LOGOUT_OK = {"lo": 302, "ll": 204, "fc": 200}


def run(ctx):
    _mach.run_modes(ctx, ['conc', 'crash', 'history'], ['c05'])
    # The machine's steps execute a store command and deliver its reply in one step. Here the two are separated for one read:
    # replica 1 has a read in flight (executed by Redis, reply not yet delivered) while replica 2 completes a logout; a request that
    # arrives at replica 1 AFTER the logout answered must be unauthenticated and must not be able to read / refresh the session.
    pre = ctx.path("inflight")
    out, dt = vf.run_driver(["inflight", "-out", pre, "-seed", str(ctx.seed), "-tier", ctx.tier])
    ctx.timings["inflight"] = round(dt, 2)
    n = 0
    for line in open(pre + ".obs"):
        d = json.loads(line)
        if d.get("kind") != "inflight":
            continue
        n += 1
        lo = d["logout_outcome"]
        if not d["logout_done"] or lo[:2] != [2, LOGOUT_OK[d["logout"]]]:
            continue
        o = d["later_outcome"]
        served = authenticated(o) or o[0] == 3 or (d["later"] == "f" and o[:2] == [2, 204])
        if served:
            ctx.violation("c05-authenticated-after-logout",
                          "a request that started after the logout had answered success was treated as authenticated / could read or refresh the session "
                          "(another request's store read was still in flight on the same replica when the other replica logged the session out)", d)
        if d["entry_exists_at_end"]:
            ctx.violation("c05-entry-after-logout", "the session's store entry exists after the logout answered success (in-flight read scenario)", d)
        if not d["later_done"]:
            ctx.violation("c05-later-request-stuck", "a request arriving after the logout never completed", d)
    ctx.evals += n
    ctx.nontrivial += n
    ctx.extra["inflight_read_scenarios"] = n
    ctx.rule += "; plus %d scenarios {first request kind} x {logout variant on the other replica} x {later request kind} x {standalone, SSO server} with one store read executed but undelivered across the logout" % n
