"""C05 — decided on the session machine, plus a read whose reply is in flight across a logout on another replica, plus - for the
last clause, "a cookie-honouring browser no longer holds the session cookie" - browser histories (real router, real SSO proxy in
front of the real SSO server, net/http/cookiejar) in which every logout variant is requested at the server and through the proxy."""
import json

from lib import vf
from lib.props import _sesskey
from lib.machine import authenticated
from lib.props import _mach

LOGOUT_OK = {"lo": 302, "ll": 204, "fc": 200}
# the same in the endpoint letters of the browser scripts (lib/props/_cookie.py): logout, local logout, front-channel logout
SCRIPT_LOGOUT_OK = {"O": 302, "K": 204, "F": 200}


def monitor_browser(ctx, infile, implfile):
    """From the property text: "Once a logout, local logout or front-channel logout for a session has answered with success ...
    a cookie-honouring browser no longer holds the session cookie". The browser of the scripts keeps every cookie it is given and
    drops exactly what a Set-Cookie header tells it to drop (net/http/cookiejar). After every logout variant that answered with
    its success status - requested at the instance itself (standalone, SSO server) or at an application's origin behind an SSO
    proxy, which relays local and front-channel logout to the SSO server - the jar must return the session cookie to no URL of
    the deployment. (The proxy's own /oauth2/logout is not a logout: it sends the browser on to the SSO server's.)"""
    from lib.props import _cookie as ck
    st = {"histories": 0, "logouts_answered_success": 0, "of_which_through_the_sso_proxy": 0, "of_which_with_a_session_cookie_in_the_jar_before": 0}
    sigs = set()
    with open(infile) as fi, open(implfile) as fo:
        for li, lo in zip(fi, fo):
            if not li.startswith(("cscript ", "cpscript ")):
                continue
            sc = ck.Script(li)
            cfg = sc.cfg
            res = ck.parse_output(lo, sc)
            st["histories"] += 1
            sname = cfg.name("session")
            history = []
            held_before = False
            for it, r in zip(sc.items, res):
                history.append(ck.describe_item(sc, it))
                held = sorted({("https" if p[0] else "http") + "://" + p[1] + p[2] for (p, cs) in r["probes"] if any(n == sname for n, _ in cs)})
                if it["kind"] == "R":
                    px = it.get("proxy", False)
                    if SCRIPT_LOGOUT_OK.get(it["ep"]) == r["status"] and not (px and it["ep"] == "O"):
                        st["logouts_answered_success"] += 1
                        st["of_which_through_the_sso_proxy"] += px
                        st["of_which_with_a_session_cookie_in_the_jar_before"] += held_before
                        mode = "sso" if cfg.sso else "standalone"
                        sigs.add((mode, px, it["ep"], held_before, bool(held)))
                        if held:
                            case = {"config": sc.describe(), "history": list(history), "status": r["status"], "set_cookie": r["cookies"],
                                    "browser_still_returns_the_session_cookie_to": held, "browser_held_the_session_cookie_before": held_before}
                            if px:
                                ctx.violation("c05-browser-holds-session-cookie-after-logout-via-sso-proxy",
                                              "a %s requested at the application's origin (SSO proxy, relayed to the SSO server) answered %d, but the "
                                              "cookie-honouring browser still holds the session cookie"
                                              % ({"K": "local logout", "F": "front-channel logout"}[it["ep"]], r["status"]), case)
                            else:
                                ctx.violation("c05-browser-holds-session-cookie-after-logout",
                                              "a %s answered %d, but the cookie-honouring browser still holds the session cookie"
                                              % ({"O": "logout", "K": "local logout", "F": "front-channel logout"}[it["ep"]], r["status"]), case)
                held_before = bool(held)
    return st, len(sigs)


def run(ctx):
    _mach.run_modes(ctx, ['conc', 'crash', 'history'], ['c05'])
    # The machine's steps execute a store command and deliver its reply in one step. Here the two are separated for one read:
    # replica 1 has a read in flight (executed by Redis, reply not yet delivered) while replica 2 completes a logout; a request that
    # arrives at replica 1 AFTER the logout answered must be unauthenticated and must not be able to read / refresh the session.
    pre = ctx.path("inflight")
    out, dt = vf.run_driver(["inflight", "-out", pre, "-seed", str(ctx.seed), "-tier", ctx.tier])
    ctx.timings["inflight"] = round(dt, 2)
    n = 0
    for line in open(pre + ".obs"):
        d = json.loads(line)
        if d.get("kind") != "inflight":
            continue
        n += 1
        lo = d["logout_outcome"]
        if not d["logout_done"] or lo[:2] != [2, LOGOUT_OK[d["logout"]]]:
            continue
        o = d["later_outcome"]
        served = authenticated(o) or o[0] == 3 or (d["later"] == "f" and o[:2] == [2, 204])
        if served:
            ctx.violation("c05-authenticated-after-logout",
                          "a request that started after the logout had answered success was treated as authenticated / could read or refresh the session "
                          "(another request's store read was still in flight on the same replica when the other replica logged the session out)", d)
        if d["entry_exists_at_end"]:
            ctx.violation("c05-entry-after-logout", "the session's store entry exists after the logout answered success (in-flight read scenario)", d)
        if not d["later_done"]:
            ctx.violation("c05-later-request-stuck", "a request arriving after the logout never completed", d)
    # configuration drift between replicas (another client id configured on the replica that serves the logout)
    nd = 0
    for line in open(pre + ".obs"):
        d = json.loads(line)
        if d.get("kind") != "drift":
            continue
        nd += 1
        lo = d["logout_outcome"]
        if not d["logout_done"] or lo[:2] != [2, LOGOUT_OK[d["logout"]]]:
            continue
        if d["entry_exists_at_end"]:
            ctx.violation("c05-entry-after-logout", "the session's store entry exists after a logout answered success at a replica configured with another client id "
                          "(the cookie's ticket names the entry; the logout must delete that entry)", d)
        for o in d["later_outcomes"]:
            if authenticated(o) or o[0] == 3 or (d["later"] == "f" and o[:2] == [2, 204]):
                ctx.violation("c05-authenticated-after-logout", "the old cookie is still accepted after a logout answered success at a replica configured with another client id", d)
                break
    ctx.extra["replica_configuration_drift_scenarios"] = nd
    ctx.evals += n + nd
    ctx.nontrivial += n + nd
    ctx.extra["inflight_read_scenarios"] = n
    ctx.rule += "; plus %d scenarios {first request kind} x {logout variant on the other replica} x {later request kind} x {standalone, SSO server} with one store read executed but undelivered across the logout" % n

    # last clause: "... and a cookie-honouring browser no longer holds the session cookie" - browser histories with every logout
    # variant at the instance and through an SSO proxy (wwh ssocookies: the SSO deployments of the cookie driver, cscript / cpscript
    # lines, plus standalone deployments with one ingress)
    from lib.props import _cookie as ck
    prec = ctx.path("browser")
    out, dt = vf.run_driver(["ssocookies", "-out", prec, "-seed", str(ctx.seed), "-tier", ctx.tier, "-chains=false", "-with-standalone"] + ck.driver_flags())
    ctx.timings["browser_histories"] = round(dt, 2)
    ctx.correspondence("browser histories: Set-Cookie headers of the real router (standalone, SSO server, SSO proxy relaying to the SSO server) and "
                       "net/http/cookiejar contents after every step vs Model/Cookie.v, Jar.v, Retry.v", prec + ".in", prec + ".impl")
    bst, bnt = monitor_browser(ctx, prec + ".in", prec + ".impl")
    ctx.extra["browser_after_logout"] = bst
    if bst["of_which_through_the_sso_proxy"] == 0 or bst["of_which_with_a_session_cookie_in_the_jar_before"] == 0:
        ctx.broken.append({"kind": "harness", "name": "browser histories control: no successful logout through the SSO proxy / none by a browser holding a session cookie", "first": bst})
    ctx.nontrivial += bnt
    ctx.rule += ("; plus browser histories (%d, of which %d successful logouts, %d through an SSO proxy): SSO deployments {same-site x domain spelling x legacy cookie x rate limit, "
                 "ingress at the root / nested, localhost} with and without an SSO proxy in front of an application {root, path prefix, both}, standalone deployments with one ingress "
                 "{localhost, host root, path prefix}: login, then every logout variant at the instance and through the proxy, error paths (store failing during the relayed "
                 "logout), logouts without a session, re-logins, random mixes; the jar probed at every host of the deployment after every step"
                 % (bst["histories"], bst["logouts_answered_success"], bst["of_which_through_the_sso_proxy"]))
    ctx.assumptions += [
        "a cookie-honouring browser = net/http/cookiejar (RFC 6265 storage model, no public-suffix list), one jar for all hosts of the deployment; "
        "Secure cookies over plain http are stored but never returned",
        "browser clause driven for deployments in which the logout is requested under the ingress path the session cookie was set for (SSO deployments: always; "
        "standalone: one ingress); two ingresses with nested paths on one host / the prefix of another host's ingress leave the cookie in the browser - "
        "the known findings of C14 (c14-nested-ingress-clear-path, c14-cross-ingress-clear-path, Properties/C14.v c14_nested_prefix_refuted), reported there",
    ]
    _sesskey.run_sesskey(ctx, "C05")
