"""C13 — every authorization request is fresh, PKCE-bound and names a configured ingress."""
import base64
import binascii
import hashlib

import json

from lib import vf
from lib.props import _auth


def unhex(h):
    return "" if h == "-" else binascii.unhexlify(h).decode("latin1")


def overlapping_exchanges(ctx, seen_jti):
    """'a signed assertion that is unique per request ... valid for at most about thirty seconds': two back-channel exchanges of the
    relying party {login with a pushed authorization request, code redemption, refresh grant} x the same set, the second one run to
    completion at every yield point of the first (configuration accessors, and the accessors of the client key the signing code
    reads after the claims are set); every client assertion the provider receives is verified; no jti may occur twice - within a
    pair, across pairs, or with the assertions of the login driver."""
    pre = ctx.path("assertpairs")
    out, dt = vf.run_driver(["assertpairs", "-out", pre, "-seed", str(ctx.seed), "-tier", ctx.tier])
    ctx.timings["assertpairs"] = round(dt, 2)
    ctx.correspondence("assertpairs: client assertions of overlapping back-channel exchanges (real router + handlers + openid client, one exchange nested "
                       "into the other at every accessor call) vs Model/Auth.v back_channel_auths (jti identities in order of arrival)",
                       pre + ".in", pre + ".impl")
    stats = {"pairs": 0, "assertions_verified": 0, "yield_points_by_first_exchange": {}, "exchanges_that_failed": 0, "kinds": set()}
    first_use = {}
    for line in open(pre + ".obs"):
        o = json.loads(line)
        stats["pairs"] += 1
        stats["kinds"].add((o["a"], o["b"]))
        if o["k"] == 0:
            stats["yield_points_by_first_exchange"]["%s (then %s)" % (o["a"], o["b"])] = o["a_yield_points"]
            if not (o["a_ok"] and o["b_ok"]):
                raise RuntimeError("assertpairs: the exchanges do not even succeed one after the other: %s" % line[:300])
        if not (o["a_ok"] and o["b_ok"]):
            stats["exchanges_that_failed"] += 1
        case = {"first_exchange": o["a"], "second_exchange": o["b"], "second_runs_at_yield_point": o["k"], "accessor": o["at_accessor"],
                "status_first": o["a_status"], "status_second": o["b_status"], "client_secret": o["client_secret"], "iss_param": o["iss_param"]}
        if not o["client_secret"] and len([a for a in (o["assertions"] or []) if a["phase"] in ("A", "B")]) < 2:
            ctx.violation("c13-back-channel-request-without-assertion", "a back-channel exchange reached the provider without a client assertion", dict(case, assertions=o["assertions"]))
        for a in o["assertions"] or []:
            if a["digest"] == "none":
                ctx.violation("c13-back-channel-request-without-assertion", "a %s request reached the provider without a client assertion" % a["endpoint"], dict(case, assertions=o["assertions"]))
                continue
            stats["assertions_verified"] += 1
            if not (a["signature_valid"] and a["iss"] == "client-id" and a["sub"] == "client-id" and a["aud"] == "http://idp" and 0 < a["lifetime_s"] <= 30):
                ctx.violation("c13-bad-client-assertion", "client assertion not addressed to the issuer / wrong subject / lifetime above ~30 s", dict(case, assertion=a))
            if a["jti"] in seen_jti:
                other = first_use.get(a["jti"])
                ctx.violation("c13-assertion-jti-shared-by-overlapping-requests",
                              "two back-channel requests overlapping in time carry client assertions with the SAME jti: the %s request of the %s exchange and %s "
                              "(second exchange run at the first one's yield point %d, accessor %s)%s"
                              % (a["endpoint"], a["phase"], ("the %s request of the %s exchange" % (other["endpoint"], other["phase"])) if other else "an earlier request",
                                 o["k"], o["at_accessor"], "; the very same signed assertion was sent twice" if other and other["digest"] == a["digest"] else ""),
                              dict(case, assertion=a, earlier_assertion=other, all_assertions_of_this_pair=o["assertions"]))
            seen_jti.add(a["jti"])
            first_use.setdefault(a["jti"], a)
    stats["kinds"] = sorted("%s/%s" % k for k in stats["kinds"])
    ctx.nontrivial += stats["pairs"]
    return stats


HIST_WINDOW = 16   # bytes: two values that share a window of this length were not drawn independently (chance 2^-128 per pair)


def _raw_bytes(kind, val):
    """the random bytes behind a visible value: the data key is reported as hex of the raw key, everything else is base64url"""
    try:
        if kind == "data_key":
            return binascii.unhexlify(val)
        return base64.urlsafe_b64decode(val + "=" * (-len(val) % 4))
    except Exception:
        return b""


def _compress_history(tokens):
    """run-length form of a list of operations: repeated blocks of up to three operations are folded"""
    out, i = [], 0
    while i < len(tokens):
        bl, bn = 1, 1
        for L in (1, 2, 3):
            blk = tokens[i:i + L]
            if len(blk) < L:
                break
            n = 1
            while tokens[i + n * L:i + (n + 1) * L] == blk:
                n += 1
            if n > 1 and n * L > bl * bn:
                bl, bn = L, n
        blk = tokens[i:i + bl]
        out.append("%d x [%s]" % (bn, ", ".join(blk)) if bn > 1 else blk[0])
        i += bl * bn
    return out


def long_mixed_histories(ctx, seen_atoms):
    """'a state and a nonce that are new, unpredictable (at least 256 bits) and never reused across attempts', over the lifetime of
    ONE process: several thousand operations through several deployments without any reset in between - logins (plain, PAR, private
    key; succeeding and failing), complete callbacks with and without a provider session id, refused callbacks, logouts with and
    without a session, logout callbacks, front-channel and local logouts - in aligned bursts (k single draws, then n double-length
    draws, k = 0..5) and in seeded random order. EVERY generated value that became visible anywhere (authorization request / PAR body,
    login and logout cookie opened with the deployment key, store key and ticket of a generated session id, the ticket's data key) is
    taken from the observations. Required: each carries at least 32 bytes that look random; all are pairwise distinct, whatever their
    kind; and no value shares a window of 16 bytes with an earlier value at ANY offset (a value cut out of bytes that were handed out
    before, shifted or concatenated, is neither new nor unpredictable). The login cookie / logout cookie seal this attempt's values."""
    obs, ins, impl = _auth.run_auth(ctx, "history")
    tokens = []                 # the history: one short description per operation
    values = []                 # (op index, kind, value, raw, where)
    by_raw = {}                 # raw bytes -> index into values (first occurrence)
    windows = {}                # 16-byte window -> (index into values, offset)
    request_uris = {}
    per_kind, per_what = {}, {}
    deployments = []

    def replay_case(o, kind, val, where, earlier, extra):
        i = o["op"]
        hist = _compress_history(tokens[:i + 1])
        omitted = 0
        if len(hist) > 300:
            omitted, hist = len(hist) - 300, hist[-300:]
        case = {"operation_index": i, "operation": o["what"], "deployment": o.get("deployment"), "configuration": o.get("cfg"),
                "value": {"kind": kind, "value": val, "seen_in": where},
                "history_of_the_process_up_to_this_operation": hist,
                "history_entries_omitted_at_the_start": omitted,
                "how_to_rerun": "build/wwh auth -mode history -seed %d -tier %s -out <prefix>  (one process; the operations are lines 0..%d of <prefix>.in / .obs)" % (ctx.seed, ctx.tier, i)}
        if earlier is not None:
            eo, ek, ev, _, ew = values[earlier]
            case["earlier_value"] = {"kind": ek, "value": ev, "seen_in": ew, "operation_index": eo, "operation": tokens[eo],
                                     "deployment": obs[eo].get("deployment")}
            case["operations_in_between"] = _compress_history(tokens[eo:i + 1])[:120]
        case.update(extra)
        return case

    for o in obs:
        tokens.append(o["what"])
        per_what[o["what"]] = per_what.get(o["what"], 0) + 1
        if o.get("deployment") and o["deployment"] not in deployments:
            deployments.append(o["deployment"])
        if o.get("binding"):
            ctx.violation("c13-cookie-binding", o["binding"], replay_case(o, "-", "-", [], None, {}))
        for b in [o.get("location", "")]:
            if o.get("secret") and o["secret"] in b or "client_assertion" in b or "client_secret" in b:
                ctx.violation("c13-credential-param-in-front-channel", "client credential in a browser-visible redirect", replay_case(o, "-", "-", [], None, {"location": b}))
        for v in o.get("values", []):
            kind, val, where = v["kind"], v["value"], v.get("where", [])
            per_kind[kind] = per_kind.get(kind, 0) + 1
            if kind == "request_uri":
                # issued by the provider for ONE pushed request: the browser must never be sent off with the reference of another attempt
                # (each deployment of the history has its own provider instance, which numbers its references from 1)
                rk = (o["segment"], val)
                if rk in request_uris:
                    ctx.violation("c13-request-uri-reused", "the browser was sent to the provider with the request_uri of an earlier attempt (operation %d)" % request_uris[rk],
                                  replay_case(o, kind, val, where, None, {"earlier_operation_index": request_uris[rk]}))
                request_uris.setdefault(rk, o["op"])
                continue
            raw = _raw_bytes(kind, val)
            if len(raw) < 32 or len(set(raw)) < 12:
                ctx.violation("c13-short-random", "%s carries fewer than 256 bits of random-looking data (%d bytes, %d distinct byte values)" % (kind, len(raw), len(set(raw))),
                              replay_case(o, kind, val, where, None, {}))
            idx = len(values)
            values.append((o["op"], kind, val, raw, where))
            if val in seen_atoms:
                ctx.violation("c13-value-reused", "%s value was handed out before by another process (as %s)" % (kind, seen_atoms[val]), replay_case(o, kind, val, where, None, {}))
            if raw and raw in by_raw:
                e = by_raw[raw]
                ctx.violation("c13-value-reused",
                              "%s of operation %d (%s) is a value that was handed out before: the %s of operation %d (%s)" % (kind, o["op"], o["what"], values[e][1], values[e][0], tokens[values[e][0]]),
                              replay_case(o, kind, val, where, e, {}))
                continue
            by_raw.setdefault(raw, idx)
            reported = False
            for off in range(0, len(raw) - HIST_WINDOW + 1):
                w = raw[off:off + HIST_WINDOW]
                hit = windows.get(w)
                if hit is not None and not reported and hit != (idx, off):
                    e, eoff = hit
                    reported = True
                    ctx.violation("c13-value-shares-bytes-with-earlier-value",
                                  "%s of operation %d (%s) contains, at byte offset %d, %d bytes that were handed out before: offset %d of the %s of operation %d (%s)"
                                  % (kind, o["op"], o["what"], off, HIST_WINDOW, eoff, values[e][1], values[e][0], tokens[values[e][0]]),
                                  replay_case(o, kind, val, where, e, {"shared_bytes_hex": w.hex(), "offset_in_this_value": off, "offset_in_earlier_value": eoff,
                                                                       "this_value_bytes_hex": raw.hex(), "earlier_value_bytes_hex": values[e][3].hex()}))
                windows.setdefault(w, (idx, off))
    ctx.nontrivial += len(values)
    return {"operations_in_one_process": len(obs), "deployments_without_reset": deployments, "operations_by_kind": dict(sorted(per_what.items())),
            "generated_values_collected": dict(sorted(per_kind.items())), "distinct_values": len(by_raw), "byte_windows_indexed": len(windows),
            "window_bytes": HIST_WINDOW}


def run(ctx):
    obs, ins, impl = _auth.run_auth(ctx, "login")
    seen_atoms = {}
    seen_jti = set()
    assertions_seen = []
    distinct = set()
    n302 = 0
    par_outcomes = {}
    reposts = 0   # PAR posts that re-sent the assertion of an earlier attempt of the same exchange (retries after 5xx)
    for o, li, lo in zip(obs, ins, impl):
        case = {"input": li, "impl": lo, "host": o.get("host"), "xfh": o.get("xfh")}
        if o.get("par_mode"):
            case["par_endpoint_behaviour"], case["par_endpoint_answers"] = o["par_mode"], o.get("par_replies", [])
        distinct.add((li.split(" | ")[1] if " | " in li else li, o["cfg"]))
        cfg = o["cfg"].split()
        par, use_secret = cfg[10] == "1", cfg[11] == "1"
        acr_default = unhex(cfg[4])
        acr_supported = [unhex(x) for x in cfg[5].split(",")]
        loc_default, loc_supported = unhex(cfg[6]), [unhex(x) for x in cfg[7].split(",")]
        configured = o.get("ingresses", [])
        if o.get("par_mode"):
            k = (o["par_mode"], o["status"], len(o.get("par_replies", [])))
            par_outcomes[k] = par_outcomes.get(k, 0) + 1
        bc = o.get("back_credentials", [])
        reposts += len(bc) - len(set(bc))
        for a in o.get("assertions", []):
            if not (a["signature_valid"] and a["iss"] == "client-id" and a["sub"] == "client-id" and a["aud"] == "http://idp"
                    and 0 < a["lifetime_s"] <= 30):
                ctx.violation("c13-bad-client-assertion", "client assertion not addressed to the issuer / wrong subject / lifetime above ~30 s", dict(case, assertion=a))
            if a["jti"] in seen_jti:
                ctx.violation("c13-assertion-jti-reused", "client assertion jti reused: the same signed assertion was sent in two HTTP requests", dict(case, assertion=a))
            seen_jti.add(a["jti"])
        # nothing the browser receives contains a client credential
        for b in o.get("browser_visible", []):
            if o["secret"] and o["secret"] in b:
                ctx.violation("c13-secret-in-front-channel", "client secret in a browser-visible response", case)
            if "client_assertion" in b or "client_secret" in b:
                ctx.violation("c13-credential-param-in-front-channel", "client credential parameter in a browser-visible response", case)
            # ... in particular none of the signed assertions that went over the back channel during this very request
            if any(ca and ca in b for ca in o.get("back_credentials", [])):
                ctx.violation("c13-assertion-in-front-channel", "a client assertion posted to the provider also appears in a browser-visible response",
                              dict(case, par_mode=o.get("par_mode"), par_replies=o.get("par_replies")))
        # with pushed authorization requests the browser is sent to the provider only with the reference the PAR endpoint issued
        # for THIS login: whenever that endpoint fails (4xx, 5xx for the whole retry budget, undecodable body, no answer,
        # unreachable) there is no reference, hence no authorization request at all
        if par and o["kind"] == "login" and o["status"] == 302:
            from urllib.parse import urlparse, parse_qs
            locs = [b for b in o.get("browser_visible", [])[:1] if b]
            q = parse_qs(urlparse(locs[0]).query, keep_blank_values=True) if locs else {}
            ref = (q.get("request_uri") or [None])[0]
            if ref is None or ref not in o.get("par_issued", []):
                ctx.violation("c13-par-request-uri-not-issued",
                              "with PAR the browser was sent to the provider without a request_uri that the PAR endpoint issued for this login "
                              "(PAR endpoint behaviour: %s, answers: %s)" % (o.get("par_mode"), o.get("par_replies")),
                              dict(case, location=locs[0] if locs else "", par_mode=o.get("par_mode"), par_replies=o.get("par_replies"),
                                   par_issued=o.get("par_issued", [])))
        if o["kind"] == "logout":
            if o["status"] == 302:
                ok = any(o["redirect_uri"] == i + "/oauth2/logout/callback" and i.split("://")[1].split("/")[0] in (o.get("host"), o.get("xfh")) for i in configured)
                if not ok:
                    ctx.violation("c13-post-logout-uri-not-configured", "post_logout_redirect_uri is not the logout callback of a configured ingress matching the request", case)
                st = o.get("state", "")
                if len(st) < 43 or st in seen_atoms:
                    ctx.violation("c13-state-reused", "logout state short or reused", case)
                seen_atoms[st] = "logout"
            continue
        if o["status"] != 302:
            continue
        n302 += 1
        p = o["params"]
        if o.get("case"):
            ctx.violation("c13-wrong-authorization-endpoint", o["case"], case)
        want = {"response_type": "code", "response_mode": "query", "code_challenge_method": "S256", "client_id": "client-id"}
        for k, v in want.items():
            if p.get(k) != v:
                ctx.violation("c13-request-shape", "authorization request lacks %s=%s" % (k, v), case)
        if "openid" not in p.get("scope", "").split():
            ctx.violation("c13-request-shape", "scope lacks openid", case)
        ch = base64.urlsafe_b64encode(hashlib.sha256(o["verifier"].encode()).digest()).rstrip(b"=").decode()
        if p.get("code_challenge") != ch:
            ctx.violation("c13-challenge-not-of-cookie-verifier", "code_challenge is not S256 of the verifier sealed in the login cookie", case)
        if p.get("state") != o["state"] or p.get("nonce") != o["nonce"]:
            ctx.violation("c13-cookie-binding", "state / nonce of the request differ from those sealed in the login cookie", case)
        for name in ("state", "nonce", "verifier"):
            v = o[name]
            try:
                raw = base64.urlsafe_b64decode(v + "=" * (-len(v) % 4))
            except Exception:
                raw = b""
            if len(raw) < 32:
                ctx.violation("c13-short-random", "%s carries fewer than 256 bits" % name, case)
            if v in seen_atoms:
                ctx.violation("c13-value-reused", "%s value reused (also used as %s)" % (name, seen_atoms[v]), case)
            seen_atoms[v] = name
        ru = p.get("redirect_uri", "")
        ok = any(ru == i + "/oauth2/callback" and i.split("://")[1].split("/")[0] in (o.get("host"), o.get("xfh")) for i in configured)
        if not ok:
            ctx.violation("c13-redirect-uri-not-configured", "redirect_uri is not the callback of a configured ingress matching the request host", dict(case, redirect_uri=ru))
        acr = p.get("acr_values", "")
        if not (acr == "" and acr_default == "" or acr in acr_supported or acr == acr_default):
            ctx.violation("c13-acr-not-allowed", "acr_values neither supported by the provider nor the configured default", dict(case, acr=acr))
        if acr_default == "" and acr != "":
            ctx.violation("c13-acr-not-allowed", "acr_values sent although none is configured", dict(case, acr=acr))
        loc = p.get("ui_locales", "")
        if not (loc == "" and loc_default == "" or loc in loc_supported or loc == loc_default):
            ctx.violation("c13-locale-not-allowed", "ui_locales neither supported nor default", dict(case, locale=loc))
        pr = p.get("prompt", "")
        if pr not in ("", "login", "select_account"):
            ctx.violation("c13-prompt-not-allowed", "prompt value outside the allow-list", dict(case, prompt=pr))
        if pr and p.get("max_age") != "0":
            ctx.violation("c13-prompt-without-max-age", "prompt without max_age=0", case)
        if par:
            loc_q = [b for b in o["browser_visible"] if b.startswith("http://idp/authorize")]
            from urllib.parse import urlparse, parse_qs
            keys = set(parse_qs(urlparse(loc_q[0]).query, keep_blank_values=True).keys()) if loc_q else set()
            if keys != {"client_id", "request_uri"}:
                ctx.violation("c13-par-leaks-parameters", "with PAR the browser URL carries more than client_id and request_uri",
                              dict(case, keys=sorted(keys), par_mode=o.get("par_mode"), par_replies=o.get("par_replies")))
    pairs = overlapping_exchanges(ctx, seen_jti)
    histories = long_mixed_histories(ctx, seen_atoms)
    ctx.nontrivial += len(distinct)
    ctx.extra["overlapping_back_channel_exchanges"] = pairs
    ctx.extra["long_mixed_histories_of_one_process"] = histories
    ctx.extra["input_distribution"] = {"requests": len(obs), "redirected_to_provider": n302, "distinct_random_values": len(seen_atoms),
                                       "client_assertions_verified": len(seen_jti),
                                       "par_retries_re_sending_the_same_assertion": reposts,
                                       "par_endpoint_behaviour_x_status_x_attempts": {"%s/%d/%d" % k: v for k, v in sorted(par_outcomes.items())}}
    ctx.samples += [{"input": li[-260:], "observed": lo[:400]} for li, lo in list(zip(ins, impl))[:3]]
    ctx.rule = ("login / logout requests through the real router over ingress sets (single, prefixed, multi-host, nested prefixes, ports) x acr default {none, supported, legacy, unsupported} "
                "x PAR on/off x PAR endpoint behaviour {healthy, 4xx json/text, 5xx once, twice, for the whole 5 s retry budget, undecodable 201, 201 without request_uri, "
                "never answering (client timeout), connection refused} x client secret / private key x Host {configured, foreign, empty} x X-Forwarded-Host x level/locale/prompt values (supported, legacy, unsupported, hostile bytes); "
                "distinct_nontrivial = distinct (request, configuration) pairs; "
                "private-key client authentication: ordered pairs of back-channel exchanges {PAR login, code redemption, refresh grant} x the same set, the second "
                "run to completion at every accessor call of the first (configuration accessors and the client key's Algorithm / KeyID / Raw): every client assertion "
                "received by the provider verified, jti pairwise distinct over the whole run; "
                "histories of ONE process (no reset between deployments): aligned bursts (n started logins, k = 0..5 logouts, n completions without a provider session id) "
                "and seeded random mixes of login {plain, PAR, private key, no matching ingress, PAR endpoint 4xx / 5xx once / undecodable / refused}, callback {provider session id, "
                "generated session id, wrong state, no cookie, token endpoint 4xx, replayed login cookie}, logout {live session, none}, logout callback, front-channel logout, "
                "local logout: every visible generated value (nonce, state, verifier, logout state, generated session id, data key) >= 32 random-looking bytes, pairwise "
                "distinct, and sharing no 16-byte window with any earlier value at any offset")
    ctx.assumptions += ["crypto/rand yields unpredictable bytes (the theorem shows the values are fresh draws used nowhere else; entropy is assumed)",
                        "S256 is modelled as an injective symbol", "provider = the harness's fake provider",
                        "'a signed assertion that is unique per request' is read per HTTP request: every POST to the PAR / token endpoint, retries included, must carry a new jti",
                        "history mode: a value is named by identity (the number of the draw that first produced it); the positions of draws nobody sees (a login whose PAR "
                        "request never reached the provider, the jti of a client assertion) are mirrored from the configuration",
                        "the generator counter after a failed login is not observable; model and implementation are compared on status, browser parameters, "
                        "back-channel posts and cookie there"]
