"""C06 — decided on the session machine, plus a store that keeps entries beyond the session's deadlines."""
import json

from lib import vf
from lib.machine import authenticated
from lib.props import _mach


def run(ctx):
    _mach.run_modes(ctx, ['history', 'conc'], ['c06'])
    # In the machine (and in a Redis whose clock agrees with wonderwall's) an entry expires exactly at the session's end, so there
    # the expiry, not the validation, is what refuses an ended session. Here the store keeps the entry (lagging expiry / clock skew):
    # every endpoint in every mode must still refuse an ended session (401 on the session endpoints) and must not refresh or serve
    # an inactive one (readable as inactive on the info endpoint only).
    pre = ctx.path("storelag")
    out, dt = vf.run_driver(["storelag", "-out", pre, "-seed", str(ctx.seed), "-tier", ctx.tier])
    ctx.timings["storelag"] = round(dt, 2)
    n = 0
    for line in open(pre + ".obs"):
        d = json.loads(line)
        n += 1
        if not d["entry_still_in_store"]:
            continue
        o, ep = d["outcome"], d["endpoint"]
        served = authenticated(o) or (ep in ("f",) and o[:2] == [2, 204]) or (ep == "r" and o[0] == 3)
        if d["after"] in ("end", "end-idle"):   # ended (and, for end-idle, also inactive since long): the end takes precedence
            if served or (ep == "i" and o[0] == 3):
                ctx.violation("c06-accepted-after-end", "session accepted / readable after its maximum lifetime (the store still holds the entry)", d)
            elif ep in ("i", "r") and o[:2] != [2, 401]:
                ctx.violation("c06-ended-not-401", "ended session not answered 401 on a session endpoint", d)
        else:
            if served:
                ctx.violation("c06-accepted-after-inactivity", "session accepted / refreshed after the inactivity timeout (the store still holds the entry)", d)
            if ep == "i" and not (o[0] == 3 and o[3] == 0):
                ctx.violation("c06-inactive-info", "inactive session not readable as inactive on the info endpoint", d)
    ctx.evals += n
    ctx.nontrivial += n
    ctx.extra["lagging_store_requests"] = n
    ctx.rule += "; plus %d requests {mode} x {inactivity} x {token lifetime} x {after end, after inactivity} x {every endpoint incl. the SSO proxy} against a store that keeps the entry beyond the deadline" % n
