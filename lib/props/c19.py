"""C19 — shutdown drains in-flight requests and always terminates in time.  PARTIAL (see assumptions).

Correspondence: the BUILT BINARY of /repo in real time (own process and ports per scenario, slow fake upstream, fake
discovery/JWKS server); a termination signal (SIGTERM / SIGHUP / SIGINT / SIGQUIT) at a planned instant; requests planned
before the signal, during the wait-before period and after it; FURTHER termination signals (a second, third, fourth one of
each kind) at planned instants inside the wait-before period and inside the drain; observed: connection refused / response
completed / cut, exit time and status (killed by signal k = status -k).
Request KINDS: besides requests proxied to the slow upstream, requests that make the binary do its own back-channel work
while it shuts down, against a complete fake OpenID provider (harness/cmd/wwh/shutdownidp.go): full logins (login ->
authorization endpoint -> callback -> token exchange; service time = the token endpoint's answer time), with and without a
key rotation at the provider before the signal / during the wait-before period (the callback then refreshes the JWKS),
session refreshes (refresh grant) and logouts; before the signal, during the wait-before period, after the close. To the
model and to the monitor they are requests with an arrival and a service time like any other.
Compared with Model/Shutdown.v: accepted flags, completed flags and exit status EXACTLY, exit time within TOL.
Flakiness policy: no retries. Scenarios keep every planned instant at least 150 ms away from every instant at which
the outcome changes (listener close, Shutdown's poll windows incl. their up-to-10 % jitter, the deadline), and no scenario
depends on the deadline watchdog beating Shutdown's next possible poll by less than 250 ms; the known finding (drained, yet
exit status 1) is demonstrated with a Shutdown timeout of 761 ms and a completion synchronised to the process's own close
instant (>= 99 ms after the latest possible 10th poll, 99 ms before the deadline, 11th poll >= 250 ms after the deadline).
Model/Shutdown.v:sd_robust judges every scenario; for a scenario that is not robust the comparison accepts either outcome
(counted in the evidence as either_scenarios; none may occur in the quick tier). TOL covers scheduling noise and the poll
jitter (at most 10 % of the offset, < 0.2 s here).
Monitor: the property text on the observations alone.
"""
from lib import vf

SEC = 10**9
TOL = int(0.7 * SEC)       # tolerance on exit time (given in the design: Go's Shutdown polls up to every 500 ms)
PROMPT_TOL = int(1.2 * SEC)   # two Shutdown poll intervals (2 x 550 ms) + slack, counted from the last completion the client observed
MARGIN = int(0.2 * SEC)    # distance from a boundary below which the monitor makes no claim
LATE = int(0.1 * SEC)      # a scenario in which the DRIVER issued a request or sent a signal more than this long after the planned
#                            instant was not realised as planned (machine overloaded): it is set aside (counted), not judged
DRAIN_MARGIN = int(0.08 * SEC)   # "exits successfully as soon as they have": claimed when every accepted request was OBSERVED to
#                                  complete and was planned to do so at least this long before the end of the graceful period
TERMINATION = {1: "SIGHUP", 2: "SIGINT", 3: "SIGQUIT", 15: "SIGTERM"}   # "a termination signal" (those a process can act on)
# what a request makes the process do (harness/cmd/wwh/shutdownidp.go); to the property they are all "requests"
KINDS = {0: "request proxied to the upstream", 1: "login (callback waiting for the token endpoint)",
         2: "login after a key rotation at the provider (callback waiting for the token endpoint, then refreshing the JWKS)",
         3: "session refresh (waiting for the token endpoint)", 4: "logout"}


# the deployment's OpenTelemetry tracing (harness/cmd/wwh/shutdown.go: sdOtel*); the property holds for every deployment
TRACING = {0: "off", 1: "on, collector unreachable (OTEL_EXPORTER_OTLP_ENDPOINT = a closed local port)",
           2: "on, collector accepts connections and never answers"}


def status_text(code):
    if code == -1000:
        return "still running 8 s after the end of the graceful period (then killed by the harness)"
    if code < 0 and code != -1000:
        return "killed by signal %d%s" % (-code, " (%s)" % TERMINATION[-code] if -code in TERMINATION else "")
    return "exit status %d" % code


def parse(infile, implfile, modelfile):
    rows = []
    with open(infile) as fi, open(implfile) as fa, open(modelfile) as fm:
        for li, la, lm in zip(fi, fa, fm):
            t = li.split()
            W, G = int(t[2]), int(t[3])
            rest = " ".join(t[5:]).split("|")
            arr = [int(x) for x in rest[0].split()]
            svc = [int(x) for x in rest[1].split()]
            sig_at = [int(x) for x in rest[2].split()] if len(rest) > 3 else [0]
            sig_kind = [int(x) for x in rest[3].split()] if len(rest) > 3 else [15]
            sync = [int(x) for x in rest[4].split()] if len(rest) > 4 else [0] * len(arr)
            kinds = [int(x) for x in rest[5].split()] if len(rest) > 5 else [0] * len(arr)
            tracing = int(rest[6].split()[0]) if len(rest) > 6 and rest[6].split() else 0
            n = len(arr)
            m = [int(x) for x in lm.split()]
            base = {"input": li.strip(), "impl": la.strip(), "model": lm.strip(), "W": W, "G": G, "arr": arr, "svc": svc,
                    "sig_at": sig_at, "sig_kind": sig_kind, "sync": sync, "kinds": kinds, "tracing": tracing, "m_started": m[0], "robust": True}
            if la.startswith("R"):
                base.update({"refused": True, "ref_class": int(la.split()[1])})
                rows.append(base)
                continue
            model_refused_only = m[0] == 0
            m = m[1:] if not model_refused_only else [0, 0, 0, 0] + [0] * (2 * n)
            a = la.split("|")
            exit_ns, exit_code = [int(x) for x in a[0].split()]
            acc = [int(x) for x in a[1].split()]
            comp = [int(x) for x in a[2].split()]
            ends = [int(x) for x in a[3].split()]
            starts = [int(x) for x in a[4].split()] if len(a) > 4 else arr
            sent = [int(x) for x in a[5].split()] if len(a) > 5 else sig_at
            http = [int(x) for x in a[6].split()] if len(a) > 6 else [0] * n
            late = max([abs(x - y) for x, y in zip(starts, arr)] + [abs(x - y) for x, y in zip(sent, sig_at)] + [0])
            rows.append({"input": li.strip(), "impl": la.strip(), "model": lm.strip(), "W": W, "G": G, "arr": arr, "svc": svc,
                         "sig_at": sig_at, "sig_kind": sig_kind, "sync": sync, "kinds": kinds, "tracing": tracing, "http": http, "robust": (m[4 + 2 * n] == 1) if len(m) > 4 + 2 * n else True,
                         "driver_late_ns": late, "starts": starts, "refused": False, "m_started": 0 if model_refused_only else 1, "model_refused_only": model_refused_only,
                         "exit": exit_ns, "code": exit_code, "acc": acc, "comp": comp, "ends": ends,
                         "m_close": m[0], "m_deadline": m[1], "m_exit": m[2], "m_code": m[3],
                         "m_acc": m[4:4 + n], "m_comp": m[4 + n:4 + 2 * n]})
    return rows


def compare(ctx, rows, name):
    mism = []
    flushed = []
    either = []
    missed = []
    for i, r in enumerate(rows):
        why = []
        if r.get("refused") or r.get("model_refused_only"):
            # start-up decision: the model's sd_startable against the binary's refusal (fatal class 24 / 25)
            if r.get("model_refused_only"):
                why.append("the model refuses these periods at start-up, the binary started")
            elif r["m_started"] != 0:
                why.append("the binary refused these periods at start-up (class %d), the model starts" % r["ref_class"])
            elif r["ref_class"] not in (24, 25):
                why.append("refused at start-up for another reason (class %d)" % r["ref_class"])
            if why:
                mism.append({"index": i, "input": r["input"], "impl": r["impl"], "model": r["model"], "why": why})
            continue
        if r["driver_late_ns"] > LATE:
            missed.append({"index": i, "input": r["input"], "impl": r["impl"], "driver_late_ms": r["driver_late_ns"] // 10**6})
            continue
        if not r["robust"]:
            # an outcome of this scenario hinges on the order of two instants that are too close (Model/Shutdown.v:sd_robust):
            # either outcome is accepted
            either.append({"index": i, "input": r["input"], "impl": r["impl"], "model": r["model"]})
            continue
        if r["acc"] != r["m_acc"]:
            why.append("accepted flags")
        if r["comp"] != r["m_comp"]:
            why.append("completed flags")
        # tracing deployments on the successful way out: the model has no trace exporter; what the process does after "shutdown completed"
        # there (the final span flush) is the known finding drained-but-held-by-trace-flush and is judged by the monitor, not compared
        flush_path = r.get("tracing", 0) != 0 and r["m_code"] == 0
        if flush_path:
            flushed.append(i)
        if r["code"] != r["m_code"] and not flush_path:
            why.append("exit status")
        # the exit instant: within TOL of the model's - or, for a SUCCESSFUL exit, up to one further Shutdown poll interval later
        # (a poll that runs before the server has marked the last connection idle is lost; the next one comes 500-550 ms later)
        late_ok = TOL + (int(0.55 * SEC) if r["code"] == 0 and r["m_code"] == 0 else 0)
        if not flush_path and not (-TOL <= r["exit"] - r["m_exit"] <= late_ok):
            why.append("exit time differs by %.2f s" % ((r["exit"] - r["m_exit"]) / SEC))
        if why:
            mism.append({"index": i, "input": r["input"], "impl": r["impl"], "model": r["model"], "why": why})
    rec = {"name": name, "cases": len(rows), "mismatches": len(mism), "either_scenarios": len(either),
           "note": "flags and exit status exact; exit time within %.1f s (a successful exit may be one further poll interval late); either_scenarios = scenarios not robust against timing noise "
                   "(sd_robust = false), for which either outcome is accepted" % (TOL / SEC)}
    ctx.extra["either_scenarios"] = len(either)
    ctx.extra["tracing_scenarios_on_the_successful_way_out_(exit_not_compared_with_the_model)"] = len(flushed)
    ctx.extra["scenarios_set_aside_because_the_driver_missed_its_schedule"] = len(missed)
    if missed:
        rec["driver_missed_schedule"] = missed[:5]
        if 10 * len(missed) > len(rows):
            raise vf.InfraError("C19: the real-time driver missed its own schedule by more than %d ms in %d of %d scenarios: the machine is too "
                                "loaded for a real-time check" % (LATE // 10**6, len(missed), len(rows)))
    if either:
        rec["first_either"] = either[:5]
        if ctx.tier == "quick":
            ctx.broken.append({"kind": "correspondence", "name": name + ": a quick-tier scenario is not robust against timing noise",
                               "first": either[0], "count_shown": len(either)})
    if mism:
        rec["first_mismatches"] = mism[:5]
        ctx.broken.append({"kind": "correspondence", "name": name, "first": mism[0], "count_shown": len(mism)})
    ctx.corr.append(rec)
    ctx.evals += len(rows)
    return mism


def monitor(ctx, rows, notes):
    sig = set()
    for i, r in enumerate(rows):
        W, G = r["W"], r["G"]
        if r.get("refused"):
            sig.add((W, G, "refused", r["ref_class"]))
            # refusing is right exactly when the periods are inconsistent (property C20: "shutdown periods must be mutually
            # consistent"): a refusal of consistent periods would make the scenario unobservable
            if 0 <= W < G:
                ctx.violation("consistent-periods-refused", "start-up refused wait-before %.2f s / graceful %.2f s" % (W / SEC, G / SEC),
                              {"scenario": notes[i] if i < len(notes) else "", "W_ns": W, "G_ns": G})
            continue
        case = {"scenario": notes[i] if i < len(notes) else "", "W_ns": W, "G_ns": G,
                "requests_(arrival_ns,service_ns)": list(zip(r["arr"], r["svc"])),
                "request_kinds": [KINDS.get(k, str(k)) for k in r["kinds"]],
                "signals_(instant_ns,number)": list(zip(r["sig_at"], r["sig_kind"])),
                "deployment_tracing": TRACING.get(r["tracing"], str(r["tracing"])),
                "observed": {"exit_ns": r["exit"], "exit_status": r["code"], "status": status_text(r["code"]), "accepted": r["acc"],
                             "completed": r["comp"], "end_ns": r["ends"], "http_status": r["http"]}}
        sig.add((W, G, tuple(r["acc"]), tuple(r["comp"]), r["code"], tuple(r["sig_kind"]), tuple(a < W for a in r["sig_at"][1:]), tuple(r["kinds"]), r["tracing"]))
        # the property speaks about termination signals; a scenario that also sends a signal no process can act on
        # (SIGKILL: the driver's control that a killed process is observed as such) is outside it
        if any(k not in TERMINATION for k in r["sig_kind"]):
            continue
        # the driver did not realise the scenario as planned (it was itself more than LATE behind schedule): no claim
        if r["driver_late_ns"] > LATE:
            continue
        nsig = len(r["sig_kind"])
        more = "" if nsig == 1 else " (%d termination signals were sent: %s)" % (
            nsig, ", ".join("%s at %.2f s" % (TERMINATION[k], t / SEC) for t, k in zip(r["sig_at"], r["sig_kind"])))
        # always terminates in time
        if r["exit"] > G + TOL:
            # (two stable names, by which way out the process was on: everything accepted had completed = the successful way out;
            # otherwise the forced one at the deadline. Both are the same clause.)
            # (by the PLAN: a process that outlives the deadline may well answer, late, a request that could not complete in time)
            drained = all(a + d <= G for a, d, acc in zip(r["arr"], r["svc"], r["acc"]) if acc)
            key = "negative-wait-before-exceeds-graceful" if W < 0 else "drained-but-exit-after-graceful-period" if drained else "exit-after-graceful-period"
            if key == "drained-but-exit-after-graceful-period" and r["tracing"] != 0:
                key = "drained-but-held-by-trace-flush"   # the known finding: names the deployment (tracing on, collector not answering) and the way out (drained)
            still = " (it was still running %.0f s after the end of the graceful period and was killed by the harness)" % ((r["exit"] - G) / SEC) if r["code"] == -1000 else ""
            ctx.violation(key, "the process exited %.2f s after the signal; graceful period %.2f s (wait-before %.2f s); tracing %s; %s%s"
                          % (r["exit"] / SEC, G / SEC, W / SEC, TRACING.get(r["tracing"], "?"),
                             "every accepted request completed within the graceful period" if drained else "an accepted request could not complete within the graceful period: the forced exit was due at its end", still), case)
        if W < 0:
            continue
        # keeps serving for the configured wait-before period: the process is still there when it ends
        if r["exit"] < W - MARGIN:
            ctx.violation("gone-before-wait-before-elapsed", "the process was gone (%s) %.2f s after the signal, before the wait-before period of %.2f s was over%s"
                          % (status_text(r["code"]), r["exit"] / SEC, W / SEC, more), case)
        fins = []
        for a, d, acc, comp, end, kind, http in zip(r["arr"], r["svc"], r["acc"], r["comp"], r["ends"], r["kinds"], r["http"]):
            what = "" if kind == 0 else " [%s]" % KINDS.get(kind, str(kind))
            # keeps serving during the wait-before period, then stops accepting
            if a < W - MARGIN and not acc:
                ctx.violation("refused-during-wait-before", "a request arriving %.2f s after the signal, before the end of the wait-before period (%.2f s), was refused%s"
                              % (a / SEC, W / SEC, more), case)
            if a > W + MARGIN and a > MARGIN and acc:
                ctx.violation("accepted-after-wait-before", "a connection was accepted after the wait-before period", case)
            # keeps SERVING: a request accepted while the process serves (wait-before period or drain) and ANSWERED, but with a
            # failure instead of what that kind of request is answered with, was not served
            if acc and not comp and http != 0 and a + d <= G - MARGIN:
                ctx.violation("answered-with-failure-during-shutdown", "an accepted request%s arriving %.2f s after the signal was answered with HTTP status %d at %.2f s instead of being served (wait-before %.2f s, graceful %.2f s)%s"
                              % (what, a / SEC, http, end / SEC, W / SEC, G / SEC, more), case)
            # no accepted request is cut off while time remains
            elif acc and a + d <= G - MARGIN and not comp:
                ctx.violation("cut-off-while-time-remains", "an accepted request%s that needed until %.2f s (< graceful %.2f s) was cut off at %.2f s without an answer; the process: %s at %.2f s%s"
                              % (what, (a + d) / SEC, G / SEC, end / SEC, status_text(r["code"]), r["exit"] / SEC, more), case)
            # ... and is answered when its work is done, not later (it does not hang until the process goes away)
            elif acc and comp and a + d <= G - MARGIN and end > a + d + TOL:
                ctx.violation("answered-late", "an accepted request%s that needed until %.2f s was answered only at %.2f s" % (what, (a + d) / SEC, end / SEC), case)
            # ... nor, when it cannot complete within the graceful period, before that period is over
            elif acc and not comp and end < min(a + d, G) - MARGIN:
                ctx.violation("cut-off-before-graceful-period-over", "an accepted request (needing until %.2f s) was cut off at %.2f s although the graceful period lasts until %.2f s; the process: %s at %.2f s%s"
                              % ((a + d) / SEC, end / SEC, G / SEC, status_text(r["code"]), r["exit"] / SEC, more), case)
            if acc:
                fins.append(a + d)
        # exits successfully as soon as they have
        if all(c for c, acc in zip(r["comp"], r["acc"]) if acc) and all(f <= G - DRAIN_MARGIN for f in fins):
            last = max([W] + fins)
            if r["code"] != 0:
                # (status 1 = the log.Fatalf of the deadline watcher; a process that was killed by a signal, or failed in another
                # way, is a different failure and gets its own key)
                ctx.violation("drained-but-exit-status-failure" if r["code"] == 1 else
                              "drained-but-held-by-trace-flush" if r["code"] == -1000 and r["tracing"] != 0 else
                              "drained-but-still-running" if r["code"] == -1000 else
                              "drained-but-killed-by-signal" if r["code"] < 0 else "drained-but-exit-status-other",
                              "every accepted request completed (the last at %.2f s, graceful period %.2f s) but the process did not exit successfully: %s at %.2f s%s"
                              % (last / SEC, G / SEC, status_text(r["code"]), r["exit"] / SEC, more), case)
            # "as soon as": http.Server.Shutdown notices idleness only at its next poll (every 500 ms + up to 10 % jitter), and the server
            # marks a connection idle / closed a little after the client has seen the last byte - under load that can cost the next poll.
            # So: no later than two poll intervals after the last completion AS OBSERVED by the client.
            seen = [e for e, acc, comp in zip(r["ends"], r["acc"], r["comp"]) if acc and comp]
            last_seen = max([last] + seen)
            # (a process that never exited by itself has no exit instant: reported above, once)
            if r["exit"] > last_seen + PROMPT_TOL and r["code"] != -1000:
                ctx.violation("exit-not-prompt", "everything completed at %.2f s (observed: %.2f s) but the process exited at %.2f s" % (last / SEC, last_seen / SEC, r["exit"] / SEC), case)
            if r["exit"] < last - MARGIN:
                ctx.violation("exit-before-drained", "the process exited before the last accepted request completed", case)
    return len(sig)


def run(ctx):
    pre = ctx.path("shutdown")
    from lib.machine import code_flags
    args = ["shutdown", "-out", pre, "-seed", str(ctx.seed), "-tier", ctx.tier]
    if code_flags().get("wait_nonneg"):
        args.append("-wait-nonneg")
    out, dt = vf.run_driver(args, timeout=1500)
    ctx.timings["shutdown"] = round(dt, 2)
    vf.run_model(pre + ".in", pre + ".model")
    rows = parse(pre + ".in", pre + ".impl", pre + ".model")
    notes = [l.rstrip("\n") for l in open(pre + ".notes")]
    compare(ctx, rows, "shutdown: built binary under SIGTERM with a slow upstream (real time) vs Model/Shutdown.v timeline")
    ctx.nontrivial += monitor(ctx, rows, notes)
    for i, r in enumerate(rows):
        if i % 3 == 0:
            ctx.samples.append({"scenario": notes[i].split("\t")[0], "input": r["input"], "impl": r["impl"], "model": r["model"]})
    ctx.rule = ("(wait-before, graceful) in {(0,1s),(0.5s,2s),(1s,3s)} x in-flight request finishing {before the signal, just after the "
                "listener closes, late but noticed by a poll, [with graceful = wait-before + 761 ms] after the last poll before the deadline, after the deadline} x a request "
                "arriving during the wait-before period x a connection attempt after it; an idle scenario per setting; one scenario with a "
                "negative wait-before; further signals: (wait-before, graceful) in {(0,2s),(0.5s,2s),(1s,3s)} x first signal rotating over TERM/HUP/INT/QUIT x "
                "second signal of each of the four kinds {inside the wait-before period, inside the drain (every other kind followed by a third), "
                "inside the wait-before period followed by a third and fourth inside the drain} with a request in flight, a request arriving after the "
                "second signal but before the listener closes, and a connection attempt after it; idle + second signal; a SIGKILL control; "
                "back-channel kinds: (wait-before, graceful) in {(1s,3s),(0.5s,2s),(0,2s)} x {no key rotation, rotation before the signal (+ again in the wait-before period), "
                "rotation in the wait-before period} x {login in flight at the signal and answered in the drain, login inside the wait-before period, session refresh "
                "accepted in the wait-before period and answered in the drain, logout, proxied request, login / logout / refresh after the close}; a login whose token "
                "exchange outlasts the graceful period; "
                "deployment dimension: (wait-before, graceful) in {(0,1s),(0.5s,2s)} x {tracing off, tracing on with the collector endpoint a closed port, tracing on with a collector "
                "that accepts and never answers} x {in-flight request that cannot finish (forced exit), in-flight request completing in the drain}, each with a request that "
                "completed 400 ms before the signal (finished spans queued in the exporter); "
                "thorough tier adds 96 random request mixes (half of the requests of a back-channel kind), half of them with 1-3 further signals. distinct_nontrivial = distinct (setting, accepted vector, "
                "completed vector, exit status) signatures")
    ctx.assumptions += [
        "PARTIAL: Model/Shutdown.v is a timeline model of the order Sleep(W) -> http.Server.Shutdown(ctx, timeout G - W) -> exit 0 / log.Fatalf "
        "transliterated from pkg/server/server.go:Start; http.Server.Shutdown (immediate listener close, waiting for in-flight requests, "
        "its poll schedule 1,2,4,...,500 ms which the model includes without the 10 % jitter), signal delivery and goroutine scheduling are "
        "the Go runtime's and are only exercised, not proved",
        "further signals: the model takes from the code that SIGHUP/SIGINT/SIGTERM/SIGQUIT stay registered (signal.Notify, never stopped) and that "
        "the channel is read once; the Go runtime's delivery (non-blocking send, default disposition of unregistered signals) is exercised, not proved; "
        "c19_first_signal_only: the model's outcome does not depend on further registered signals",
        "hijacked connections (WebSocket upgrades) are not tracked by Shutdown and are outside the model",
        "tracing: the model's timeline does not depend on the deployment's OpenTelemetry setting (the model ignores that input); the binary is run with tracing off, "
        "with an unreachable collector and with a collector that never answers, and compared with the same timeline; a collector that answers is not run "
        "(no OTLP collector in the harness)",
        "request kinds: the model does not distinguish them (a request = arrival + service time); for a login / session refresh the service time is the "
        "time the fake provider's token endpoint takes (the few ms of the login's redirect steps and of wonderwall's own processing are inside the 150 ms margins); "
        "'served' means answered with what that kind is answered with when the process is not shutting down (login: 302 + session cookie, or after a key "
        "rotation the automatic retry 307 -> /oauth2/login; refresh: 200 + session metadata; logout: 302 to the end-session endpoint); access tokens of the "
        "fake provider live 1 s so that a session can be refreshed 0.5 s after its creation",
        "real-time comparison: flags and exit status exact, exit time within 0.7 s; no retries; planned instants are kept >= 150 ms away from "
        "every instant at which the outcome changes (listener close, poll windows with jitter, deadline); no scenario depends on the deadline beating "
        "the next possible poll by < 250 ms; the known finding is shown with Shutdown timeout 761 ms and a completion synchronised to the close instant "
        "the process logs (margins 99 / 99 / 250 ms); Model/Shutdown.v:sd_robust judges each scenario, scenarios that are not robust are compared "
        "accepting either outcome (either_scenarios in the evidence, 0 required in the quick tier)",
        "0 <= W < G is guaranteed by Config.Validate since fix 164dd13 (C20: c20_starts_periods; c19_exit_within_graceful_when_started); "
        "scenarios with W < 0 or G <= W are observed as refusals at start-up and compared with sd_startable",
    ]
