"""C07 — decided on the session machine, plus a re-read under the lock racing an older in-flight read."""
import json

from lib import vf
from lib.props import _sesskey
from lib.props import _mach


def run(ctx):
    _mach.run_modes(ctx, ['conc', 'crash', 'history'], ['c07'])
    # The machine's steps execute a store command and deliver its reply at once. Here one read is executed before the lock holder's
    # write and delivered after it, on the replica where the next lock holder does its re-read: each refresh-token value may still be
    # presented to the provider at most once, and at most one grant may succeed in the cooldown window.
    pre = ctx.path("inflight")
    out, dt = vf.run_driver(["inflight", "-out", pre, "-seed", str(ctx.seed), "-tier", ctx.tier])
    ctx.timings["inflight"] = round(dt, 2)
    n = 0
    for line in open(pre + ".obs"):
        d = json.loads(line)
        if d.get("kind") != "reread":
            continue
        n += 1
        rts = [p["rt"] for p in d["presented"]]
        if len(rts) != len(set(rts)):
            ctx.violation("c07-rt-presented-twice", "a refresh-token value was presented to the provider twice (the re-read under the lock was served by a store read that "
                          "had been executed before the previous lock holder stored the new pair)", d)
        if sum(1 for p in d["presented"] if p["accepted"]) > 1:
            ctx.violation("c07-two-grants-in-cooldown", "two refresh grants succeeded within one cooldown window", d)
        if not d["all_done"]:
            ctx.violation("c07-request-stuck", "a request never completed", d)
    ctx.evals += n
    ctx.nontrivial += n
    ctx.extra["reread_vs_older_read_scenarios"] = n
    ctx.rule += "; plus %d scenarios {waiting request kind} x {reading request kind} in which a read executed before the lock holder's write is delivered after it" % n

    # The provider processes a grant and the back-channel connection dies before a response byte (keep-alives ON in this driver only):
    # within ONE request, and without a server-error answer in between, a refresh-token value is presented once. (A LATER request
    # presenting the value again is not judged: no answer ever reached wonderwall, the stored pair is still the old one.)
    pre = ctx.path("connloss")
    out, dt = vf.run_driver(["connloss", "-out", pre, "-seed", str(ctx.seed), "-tier", ctx.tier])
    ctx.timings["connloss"] = round(dt, 2)
    n = dropped = 0
    for line in open(pre + ".obs"):
        d = json.loads(line)
        if d.get("kind") != "connloss":
            continue
        n += 1
        dropped += d["connections_dropped"]
        first = d["presented"][:d["presentations_by_first_request"]]
        for a, b in zip(first, first[1:]):
            if a["rt"] == b["rt"] and a["answer"] not in ("5xx",):
                ctx.violation("c07-rt-presented-twice-by-one-request", "one request presented a refresh-token value to the provider again although the provider had "
                              "not answered with a server error (the connection was lost after the provider had processed the grant)", d)
                break
        if not d["all_done"]:
            ctx.violation("c07-request-stuck", "a request never completed", d)
    ctx.evals += n
    ctx.nontrivial += dropped
    ctx.extra["connection_lost_after_grant_scenarios"] = n
    ctx.extra["connection_lost_after_grant_drops"] = dropped
    if n and dropped == 0:
        raise vf.InfraError("connloss: %d scenarios but no dropped connection (the fault was not exercised)" % n)
    ctx.rule += "; plus %d scenarios in which the provider processes the grant and the kept-alive (reused or fresh) connection is lost before a response byte" % n
    _sesskey.run_sesskey(ctx, "C07")
