"""C07 — decided on the session machine, plus a re-read under the lock racing an older in-flight read."""
import json

from lib import vf
from lib.props import _mach


def run(ctx):
    _mach.run_modes(ctx, ['conc', 'crash', 'history'], ['c07'])
    # The machine's steps execute a store command and deliver its reply at once. Here one read is executed before the lock holder's
    # write and delivered after it, on the replica where the next lock holder does its re-read: each refresh-token value may still be
    # presented to the provider at most once, and at most one grant may succeed in the cooldown window.
    pre = ctx.path("inflight")
    out, dt = vf.run_driver(["inflight", "-out", pre, "-seed", str(ctx.seed), "-tier", ctx.tier])
    ctx.timings["inflight"] = round(dt, 2)
    n = 0
    for line in open(pre + ".obs"):
        d = json.loads(line)
        if d.get("kind") != "reread":
            continue
        n += 1
        rts = [p["rt"] for p in d["presented"]]
        if len(rts) != len(set(rts)):
            ctx.violation("c07-rt-presented-twice", "a refresh-token value was presented to the provider twice (the re-read under the lock was served by a store read that "
                          "had been executed before the previous lock holder stored the new pair)", d)
        if sum(1 for p in d["presented"] if p["accepted"]) > 1:
            ctx.violation("c07-two-grants-in-cooldown", "two refresh grants succeeded within one cooldown window", d)
        if not d["all_done"]:
            ctx.violation("c07-request-stuck", "a request never completed", d)
    ctx.evals += n
    ctx.nontrivial += n
    ctx.extra["reread_vs_older_read_scenarios"] = n
    ctx.rule += "; plus %d scenarios {waiting request kind} x {reading request kind} in which a read executed before the lock holder's write is delivered after it" % n
