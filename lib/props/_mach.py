"""Common driver for the properties decided on the session machine (Model/Machine.v)."""
from lib import machine, monitors, vf

# mode -> (quick n, thorough n)
SIZES = {"history": (400, 6000), "faults": (400, 6000), "faultgrid": (0, 0), "conc": (250, 3000), "crash": (0, 0)}

ASSUME = [
    "atomicity granularity: one Redis command / one lock script call / one token-endpoint call per step; Redis itself (here miniredis) is trusted",
    "the identity provider is the harness's fake provider (rotating or non-rotating refresh tokens, configurable lifetime and faults)",
    "tokens, data keys and session ids are compared as abstract identifiers (ideal encryption: a blob opens only with its own data key)",
    "the fake clock of testing/synctest stands for time.Now(); durations far from int64 overflow",
]


def run_modes(ctx, modes, monitor_names, seed_offset=0):
    all_stats = {}
    sample_every = {}
    for mode in modes:
        q, t = SIZES[mode]
        n = t if ctx.tier == "thorough" else q
        name = "machine-" + mode
        infile, implfile = machine.run_machine(ctx, name, mode, n, ctx.seed + seed_offset)
        ctx.correspondence("machine/%s: real handlers+session manager+store+lock+provider calls vs Model/Machine.v (per-event operation, outcome, store snapshot)" % mode,
                           infile, implfile)
        # one streaming pass: monitors and statistics per scenario (nothing is kept but a hash of each event sequence and the first sample)
        distinct = set()
        first = []

        def visit():
            for s in machine.load_scenarios(infile, implfile):
                distinct.add(hash(s.raw_in))
                if not first:
                    first.append((s.raw_in[:1500], s.raw_obs[:1500]))
                for mn in monitor_names:
                    for (key, what, extra) in getattr(monitors, mn)(s):
                        ctx.violation(key, what, s.case(extra))
                yield s
        all_stats[mode] = machine.stats(visit())
        ctx.nontrivial += len(distinct)
        if first:
            ctx.samples.append({"mode": mode, "scenario": first[0][0], "observed": first[0][1]})
    ctx.extra["input_distribution"] = all_stats
    ctx.rule = ("scenarios of the session machine generated from one PRNG (VERIF_SEED): histories (logins, clock advances to boundary instants +-1ns/1s, "
                "requests of every kind with every cookie class), fault sequences (store error / 4xx / 5xx / malformed / cancellation at operation boundaries), "
                "exhaustive interleavings of 2 concurrent requests per (store, request pair) up to a cap, crash of either request after each of its operations; "
                "distinct_nontrivial = number of distinct event sequences")
    ctx.assumptions += ASSUME
