"""Common driver for the properties decided on the session machine (Model/Machine.v)."""
from lib import machine, monitors, vf

# mode -> (quick n, thorough n)
SIZES = {"history": (400, 6000), "faults": (400, 6000), "faultgrid": (0, 0), "conc": (250, 3000), "crash": (0, 0)}

ASSUME = [
    "atomicity granularity: one Redis command / one lock script call / one token-endpoint call per step; Redis itself (here miniredis) is trusted",
    "the identity provider is the harness's fake provider (rotating or non-rotating refresh tokens, configurable lifetime and faults)",
    "tokens, data keys and session ids are compared as abstract identifiers (ideal encryption: a blob opens only with its own data key)",
    "the fake clock of testing/synctest stands for time.Now(); durations far from int64 overflow",
]


def run_modes(ctx, modes, monitor_names, seed_offset=0):
    all_stats = {}
    sample_every = {}
    for mode in modes:
        q, t = SIZES[mode]
        n = t if ctx.tier == "thorough" else q
        name = "machine-" + mode
        infile, implfile = machine.run_machine(ctx, name, mode, n, ctx.seed + seed_offset)
        ctx.correspondence("machine/%s: real handlers+session manager+store+lock+provider calls vs Model/Machine.v (per-event operation, outcome, store snapshot)" % mode,
                           infile, implfile)
        scs = list(machine.load_scenarios(infile, implfile))
        st = machine.stats(scs)
        all_stats[mode] = st
        distinct = set()
        for s in scs:
            distinct.add(s.raw_in)
            for mn in monitor_names:
                for (key, what, extra) in getattr(monitors, mn)(s):
                    ctx.violation(key, what, s.case(extra))
        ctx.nontrivial += len(distinct)
        if scs:
            ctx.samples.append({"mode": mode, "scenario": scs[0].raw_in[:1500], "observed": scs[0].raw_obs[:1500]})
    ctx.extra["input_distribution"] = all_stats
    ctx.rule = ("scenarios of the session machine generated from one PRNG (VERIF_SEED): histories (logins, clock advances to boundary instants +-1ns/1s, "
                "requests of every kind with every cookie class), fault sequences (store error / 4xx / 5xx / malformed / cancellation at operation boundaries), "
                "exhaustive interleavings of 2 concurrent requests per (store, request pair) up to a cap, crash of either request after each of its operations; "
                "distinct_nontrivial = number of distinct event sequences")
    ctx.assumptions += ASSUME
