"""C09 — cookies and stored sessions are opaque, tamper-evident and key-separated."""
import json

from lib import vf


def run(ctx):
    pre = ctx.path("crypto")
    out, dt = vf.run_driver(["crypto", "-out", pre, "-seed", str(ctx.seed), "-tier", ctx.tier])
    ctx.timings["crypto"] = round(dt, 2)
    ctx.correspondence("crypto: real XChaCha20-Poly1305 crypter (round trip, other key, EVERY bit flip, every truncation, junk) vs Model/Crypt.v (ideal AEAD); "
                       "data keys of successive logins (identity, store-level substitution between sessions) through the real stack vs Model/Crypt.v mint_all",
                       pre + ".in", pre + ".impl")
    # monitor 1: no tampered / foreign-key ciphertext decrypts; untouched ones round-trip
    ops = {}
    with open(pre + ".in") as fi, open(pre + ".impl") as fo:
        for li, lo in zip(fi, fo):
            t = li.split()
            if t[0] != "crypt":
                continue   # dekmint / dekswap lines (data keys of sessions): the observations below carry their monitor
            sk, ok, op, arg, pt = t[1], t[2], int(t[3]), t[4], t[5]
            ops[op] = ops.get(op, 0) + 1
            good = lo.startswith("ok")
            if lo.startswith("panic"):
                ctx.violation("c09-decrypt-panic", "decrypting a modified / truncated ciphertext panics instead of returning an error", {"input": li.strip(), "impl": lo.strip()})
            if op == 0 and sk == ok and (not good or lo.split()[1] != pt):
                ctx.violation("c09-roundtrip-broken", "untouched ciphertext does not decrypt to its plaintext", {"input": li.strip(), "impl": lo.strip()})
            if (op != 0 or sk != ok) and good:
                ctx.violation("c09-tampered-accepted", "modified / truncated / foreign-key ciphertext was accepted", {"input": li.strip(), "impl": lo.strip()})
    n_swap = 0
    distinct = set()
    for line in open(pre + ".obs"):
        o = json.loads(line)
        if o["kind"] == "nonces":
            if o["duplicates"]:
                ctx.violation("c09-nonce-reuse", "encryption nonce repeated or ciphertext too short", o)
            ctx.extra["nonces"] = o
        elif o["kind"] == "swap":
            n_swap += 1
            distinct.add((o["variant"].split("-")[0], o["endpoint"], o["redis"]))
            out_ = o["outcome"]
            if o["panic"] or out_[0] == 9 or (out_[0] == 2 and out_[1] >= 500):
                ctx.violation("c09-crash-on-bad-cookie", "tampered / substituted cookie or store value answered with a crash or server error", o)
            authenticated = (out_[0] == 1 and out_[1] != -1) or out_[0] == 3 or (o["endpoint"] == "f" and out_[:2] == [2, 204])
            if o["class"] in ("invalid", "none") and authenticated:
                ctx.violation("c09-substitution-accepted", "modified / substituted cookie or store value was treated as a valid session", o)
            if o["class"] == "valid" and not authenticated:
                ctx.violation("c09-own-cookie-rejected", "the session's own cookie was not accepted", o)
        elif o["kind"] == "deks":
            # "the data key carried in that user's own cookie": every session gets a data key no other session has - also when
            # the callback request carried the cookie of an earlier session of the same browser (same or different provider session id)
            seen = {}
            for l in o["logins"]:
                if l["data_key_bytes"] != 32:
                    ctx.violation("c09-data-key-size", "a session's data key is not 256 bits", dict(o, login=l))
                if l["data_key_id"] in seen:
                    ctx.violation("c09-data-key-reused",
                                  "the session of login %d (provider session id %s, callback request carrying the session cookie of login %s) is sealed under the same "
                                  "data key as the session of login %d" % (l["login"], l["sid"], l["carried_cookie_of_login"], seen[l["data_key_id"]]), o)
                seen.setdefault(l["data_key_id"], l["login"])
            distinct.add(("deks", o["redis"]))
            ctx.extra.setdefault("data_keys", []).append({"redis": o["redis"], "logins": len(o["logins"]), "distinct_keys": len(seen)})
        elif o["kind"] == "scan":
            ctx.extra.setdefault("scans", []).append({k: o[k] for k in ("redis", "values_scanned", "secrets")})
            for leak in o["leaks"]:
                ctx.violation("c09-secret-in-clear", "a token / verifier / key appears in clear in a cookie or store value: " + leak, o)
    ctx.nontrivial += len(ops) + len(distinct)
    ctx.extra["input_distribution"] = {"decrypt_cases_by_op(0 untouched,1 flip,2 truncate,3 drop-prefix,4 junk)": ops, "swap_matrix_requests": n_swap}
    ctx.samples.append({"first": open(pre + ".in").readline().strip()[:200]})
    ctx.rule = ("ciphertexts of sizes {0,1,15,16,17,64,300(,4096,65536)}: round trip, other key, every single bit flipped, every proper prefix and suffix, junk; "
                "20 000 encryptions for nonce uniqueness; through the real stack (both stores): swap matrix {own, other session, login cookie, logout cookie, foreign deployment key, "
                "every short prefix / suffix truncation, ticket with another session's data key, unknown key, bit flips of the ticket, store blob of B under key A, truncated store values} x {proxy, session info, forward-auth}; "
                "re-logins of a browser that still holds its previous session cookie (the callback carries it; another and the same provider session id; two browsers, three generations): "
                "identity of the data keys sealed in the tickets, every ordered pair substituted at store level (cookie of i + stored value of j), old cookie against the replacing entry; "
                "secret scan of every cookie / store value written during login and refresh")
    ctx.assumptions += ["ideal AEAD: 'tamper-evident for every bit' is a fact about XChaCha20-Poly1305 that Coq does not prove here; it enters as the symbolic decryption rule and is supported by the exhaustive bit-flip run",
                        "configuration legacy-cookie=true (access token in a clear cookie, by design) is outside the property's quantifier and not exercised"]
