"""C08 — automatic refresh schedule, cooldown and mode rules."""
from lib import vf

SEC = 10**9
LEEWAY = 300 * SEC      # "never earlier than five minutes before token expiry"
COOLDOWN_MAX = 60 * SEC  # "cooldown (at most one minute ...)"


def quot(a, b):
    q = abs(a) // abs(b)
    return q if (a >= 0) == (b >= 0) else -q


def to_seconds(d):
    i = quot(d, SEC)
    return i if i > 0 else 0


def monitor_grid(ctx, infile, implfile):
    """Property monitor evaluated on the implementation's observations (independent of the model)."""
    n_nontrivial = set()
    with open(infile) as fi, open(implfile) as fo:
        for li, lo in zip(fi, fo):
            t = li.split()
            now, created, ends = int(t[1]), int(t[2]), int(t[3])
            timeout = None if t[4] == "-" else int(t[4])
            expire, refreshed = int(t[5]), int(t[6])
            o = [int(x) for x in lo.split()]
            (ended, expired, timedout, lifetime, cd_end, on_cd, nxt, should,
             v_ends, v_active, v_timeout, v_exp, v_next, v_cd, v_cdsecs, val) = o
            case = {"input": li.strip(), "impl": lo.strip()}
            if should and not expired:
                half_ok = timeout is not None and now >= refreshed + quot(timeout - refreshed, 2)
                if not (now >= expire - LEEWAY or half_ok):
                    ctx.violation("early-refresh", "refresh due earlier than 5 min before expiry / half-life", case)
                if on_cd:
                    ctx.violation("refresh-during-cooldown", "refresh due while cooldown is running", case)
            if expired and refreshed <= now and not should:
                ctx.violation("expired-not-refreshed", "expired token not due for refresh", case)
            if expired and refreshed <= now and on_cd:
                ctx.violation("expired-on-cooldown", "expired token held back by cooldown", case)
            if cd_end - refreshed > COOLDOWN_MAX:
                ctx.violation("cooldown-too-long", "cooldown longer than one minute", case)
            if 0 <= lifetime <= 2 * COOLDOWN_MAX and cd_end != refreshed + quot(lifetime, 2):
                ctx.violation("cooldown-not-halflife", "short-lived token: cooldown is not half the lifetime", case)
            if bool(on_cd) != (now < cd_end):
                ctx.violation("cooldown-flag", "cooldown flag inconsistent with cooldown end", case)
            if (bool(v_cd) != bool(on_cd) or v_exp != to_seconds(expire - now) or v_cdsecs != to_seconds(cd_end - now)
                    or v_next != to_seconds(nxt - now) or bool(v_active) == bool(timedout)
                    or v_ends != to_seconds(ends - now)
                    or v_timeout != (-1 if timeout is None else to_seconds(timeout - now))):
                ctx.violation("verbose-inconsistent", "session metadata endpoint values inconsistent with predicates", case)
            if bool(expired) != (now > expire) or bool(ended) != (now > ends):
                ctx.violation("expiry-predicate", "IsExpired/IsEnded disagree with strict comparison", case)
            # non-trivial: the point lies within 1 s + 1 ns of some boundary -> region signature
            n_nontrivial.add((ended, expired, timedout, on_cd, should, val, lifetime, timeout is None))
    return len(n_nontrivial)


def run(ctx):
    pre = ctx.path("metagrid")
    out, dt = vf.run_driver(["metagrid", "-out", pre, "-seed", str(ctx.seed), "-tier", ctx.tier])
    ctx.timings["metagrid"] = round(dt, 2)
    ctx.correspondence("metagrid: real session.Metadata methods vs Model/SessionTime.v (exact fake clock)",
                       pre + ".in", pre + ".impl")
    nt = monitor_grid(ctx, pre + ".in", pre + ".impl")
    ctx.nontrivial += nt
    with open(pre + ".in") as fi, open(pre + ".impl") as fo:
        for i, (a, b) in enumerate(zip(fi, fo)):
            if i % 4001 == 0:
                ctx.samples.append({"input": a.strip(), "impl_and_model": b.strip()})
    ctx.rule = ("time grid: token lifetimes x inactivity timeouts x 'now' at offsets {-1s-1ns..+1s+1ns} around every boundary "
                "(refreshed, cooldown end, expiry-leeway, half-life, expiry, timeout) x session end {far, now, just passed}; "
                "distinct_nontrivial counts distinct (predicate-vector, lifetime, timeout-present) signatures")
    # handler level: which requests perform grants, in which modes, and the metadata endpoint (session machine)
    from lib.props import _mach
    _mach.run_modes(ctx, ["history", "conc"], ["c08"])
    ctx.rule += " ; plus session-machine histories and schedules with the handler-level monitor (grants only in proxy/forward-auth/refresh handlers, mode rules, cooldown, idempotent manual refresh, metadata endpoint)"
    # "refreshed automatically ONLY on proxied (or forward-auth) requests": every other owned endpoint, hit with a session that is due
    # for refresh / has an expired token (rate limiter on and off, both stores, standalone and SSO server), performs no grant and leaves
    # the stored session as it is.
    import json
    pre2 = ctx.path("norefresh")
    vf.run_driver(["norefresh", "-out", pre2, "-seed", str(ctx.seed), "-tier", ctx.tier])
    n = 0
    for line in open(pre2 + ".obs"):
        d = json.loads(line)
        n += 1
        if d["refresh_grants"]:
            ctx.violation("c08-grant-in-wrong-handler", "a request to an owned endpoint other than proxy / forward-auth / refresh performed a refresh grant", d)
        elif d["stored_session_changed"] and d["stored_session_present_after"]:   # (login?prompt=... deletes the session by design; that is not a refresh)
            ctx.violation("c08-session-moved-by-non-refreshing-endpoint", "a request to an owned endpoint other than proxy / forward-auth / refresh changed the stored session", d)
    ctx.evals += n
    ctx.nontrivial += n
    ctx.extra["non_refreshing_endpoint_requests"] = n
    ctx.rule += " ; plus %d requests to the other owned endpoints with a refresh-due / expired-token session (no grant, stored session unchanged)" % n
    ctx.assumptions += ["no int64 overflow of time arithmetic (durations far below 2^63 ns)",
                        "Go zero time.Time is modelled as an absent timeout"]
