"""Session identity (`wwh sesskey`): the real session.ExternalID decision and the real store-key / lock-key derivation against
Model/SessionKey.v, plus monitors written from the property texts (C05: a logout removes that session's entry and no other;
C07: the refresh lock is per session)."""
import collections
from lib import vf


def _unhex(t):
    return b"" if t == "-" else bytes.fromhex(t)


def run_sesskey(ctx, prop):
    pre = ctx.path("sesskey")
    out, dt = vf.run_driver(["sesskey", "-out", pre, "-seed", str(ctx.seed), "-tier", ctx.tier])
    ctx.timings["sesskey"] = round(dt, 2)
    ctx.correspondence("sesskey: real session.ExternalID (sid claim shapes x session_state shapes x discovery requirements) and the real "
                       "manager.key / lockKey (verif hook VerifKeys) vs Model/SessionKey.v, byte for byte", pre + ".in", pre + ".impl")
    groups = collections.defaultdict(dict)   # (provider, client) -> ext -> (key, lock)
    n = 0
    sid_wins = 0
    with open(pre + ".in") as fi, open(pre + ".impl") as fo:
        for a, b in zip(fi, fo):
            ta, tb = a.split(), b.split()
            n += 1
            if ta[0] == "extid" and prop == "C05":
                # the provider's front-channel logout names the ID token's sid: the login must have stored the session under it
                if ta[1] == "1":
                    sid_wins += 1
                    if tb[0] != "0" or tb[1] != ta[2]:
                        ctx.violation("c05-login-entry-not-under-provider-sid",
                                      "the ID token carries a string sid, but the session is not stored under it: the provider's front-channel logout for that sid cannot remove it",
                                      {"sid": _unhex(ta[2]).decode("latin1"), "sid_required": ta[3], "session_state": _unhex(ta[4]).decode("latin1"),
                                       "session_state_required": ta[5], "external_id_outcome": b.strip()})
            elif ta[0] == "skey":
                groups[(ta[1], ta[2])][ta[3]] = (tb[0], tb[1])
    pairs = 0
    for (p, c), m in groups.items():
        bykey, bylock = {}, {}
        for e, (k, lk) in m.items():
            pairs += 1
            if prop == "C05":
                if k in bykey and bykey[k] != e:
                    ctx.violation("c05-two-sessions-one-store-key", "two different provider session ids of one deployment share a store key: a logout of one removes the other",
                                  {"provider": _unhex(p).decode("latin1"), "client_id": _unhex(c).decode("latin1"),
                                   "ids": [_unhex(bykey[k]).decode("latin1"), _unhex(e).decode("latin1")], "key": _unhex(k).decode("latin1")})
                bykey[k] = e
            else:
                if lk in bylock and bylock[lk] != e:
                    ctx.violation("c07-two-sessions-one-lock", "two different sessions of one deployment share a refresh-lock entry",
                                  {"provider": _unhex(p).decode("latin1"), "client_id": _unhex(c).decode("latin1"),
                                   "ids": [_unhex(bylock[lk]).decode("latin1"), _unhex(e).decode("latin1")], "lock_key": _unhex(lk).decode("latin1")})
                bylock[lk] = e
        if prop == "C07":
            keys = {k: e for e, (k, _) in m.items()}
            for e2, (k2, lk2) in m.items():
                if lk2 == k2:
                    ctx.violation("c07-lock-entry-is-the-session-entry", "the refresh lock of a session is taken on the session's own key",
                                  {"id": _unhex(e2).decode("latin1"), "key": _unhex(k2).decode("latin1")})
                e = keys.get(lk2)
                if e is not None and not _unhex(e).endswith(b".lock"):
                    ctx.violation("c07-lock-entry-on-another-session", "the refresh lock of one session occupies the store key of another session whose id does not end in .lock",
                                  {"lock_of": _unhex(e2).decode("latin1"), "session": _unhex(e).decode("latin1"), "key": _unhex(lk2).decode("latin1")})
    ctx.nontrivial += len(groups)
    ctx.extra["sesskey_driver"] = out.strip().split("\n")[-1]
    ctx.extra["sesskey_cases"] = {"lines": n, "deployments": len(groups), "key_cases": pairs, "id_token_sid_cases": sid_wins}
    ctx.rule += ("; plus session identity (%d cases): sid claim {absent, string incl. empty / '.lock' / colon / non-ASCII, number, bool, array, object} x "
                 "session_state {absent, empty, one, several, hostile} x discovery requirements; store and lock keys for provider names x client ids x ids "
                 "over an alphabet with colons, '.lock' suffixes, empty strings, and random strings" % n)
    ctx.assumptions += ["session identity: Model/SessionKey.v is hand-written; fmt.Sprintf(\"%s:%s:%s\") / (\"%s.lock\") are modelled as byte concatenation"]
