#!/bin/bash
# usage: lib/runall.sh [tier] [ids...]   - run every claimed check in sequence on the current tree; print one line per check
cd "$(dirname "$0")/.."
TIER=${1:-quick}; shift
IDS=${@:-$(python3 -c "import json;print(' '.join(c['property_id'] for c in json.load(open('MANIFEST.json'))['checks']))")}
rc=0
for id in $IDS; do
  out=$(./check $id --tier $TIER 2>&1); e=$?
  echo "$id exit=$e $(echo "$out" | grep -c '^VIOLATION') violation-lines; $(echo "$out" | grep -E '^(OK|FAIL)' | tail -1)"
  echo "$out" | grep -E '^(VIOLATION|KNOWN-FINDING)' | cut -c1-200 | sed 's/^/    /'
  [ $e -ne 0 ] && rc=1
done
exit $rc
