#!/usr/bin/env python3
"""Regenerates MANIFEST.json from the table below (kept in one place so it stays valid)."""
import json
import os

ROOT = os.path.dirname(os.path.dirname(os.path.abspath(__file__)))

# id -> (technique, level text, level note, design section)
CLAIMED = {
    "C08": ("Coq proof over Z (SessionTime) + grid differential vs real Metadata under exact fake clock",
            "Theorems c08_* (never early, always once expired, cooldown blocks and is <= 1 min, refresh opportunity, exact schedule, metadata consistency) proved for all integer timestamps over Model/SessionTime.v instantiated at the constants dumped from the compiled code; the model is tied to pkg/session/data.go by an exhaustive boundary grid evaluated on the real Metadata methods under testing/synctest.",
            "Trusts: Coq kernel; hand-written transliteration tied by the differential grid; no int64 overflow; Go zero time = absent timeout. Pins: leeway = 5 min, min interval = 1 min.",
            "5/C08"),
    "C02": ("Coq theorems on the symbolic callback model (all queries x cookie terms x providers) + full cross-product differential on the real router",
            "c02_* over Model/Auth.v: the code is sent to the provider only after every browser-side check passed and the token request carries the cookie's verifier / redirect URI; a failed check sends nothing and creates nothing; the login cookie is always cleared; a cookie passes only with the state of the same attempt; another cookie type's ciphertext is rejected (c02_logout_cookie_refuted documents the pre-fix defect, fixed in /repo). The real router + handlers + openid client are driven over the full cross product of query parameters and cookie classes with a PKCE-enforcing fake provider and must agree with the model; a monitor built from the generator's ground truth checks the property on the provider log, store and Set-Cookie headers.",
            "Trusts: Coq kernel; symbolic model (ideal AEAD, fresh atoms) tied by differential; fake provider; ID-token validation is C03's.",
            "5/C02"),
    "C03": ("Coq theorem: sequential ID-token checker = declarative OIDC conjunction (all tokens, key sets, configurations, times) + fault-lattice differential with real signatures",
            "c03_accept_iff_all_checks: IDToken.Validate (jws.Verify with the key set, acr rule, jwt.Validate, untrusted-audience rule, early returns preserved) accepts exactly the tokens signed under the first published key with the token's kid using that key's own algorithm, with iss / aud / exp / iat / nbf (skew, truncation) / nonce / sub / sid / acr as the property lists; corollaries: unsigned / alg=none / HS256-over-public-key / wrong key never accepted, strict expiry (c03_epoch_exp_refuted documents the pre-fix jwx quirk, fixed in /repo). 2 330 lattice points (baseline, all single and pair deviations over 15 dimensions) are minted with real RSA / ECDSA / HMAC signatures, run through the real openid.NewTokens with the real keySetMutator, and must agree with the model; the monitor re-derives the verdict from the generator's selectors.",
            "Trusts: Coq kernel; ideal signatures; jwx v2.1.4 semantics transliterated and tied by the lattice only; JWT parsing not modelled.",
            "5/C03"),
    "C04": ("Coq theorems over unbounded byte strings (net/url + path.Clean + http.Redirect + validators + WHATWG origin model) + exhaustive small-alphabet differential + Node WHATWG oracle",
            "c04_*: exact language of the redirect regex (source pinned to the compiled code), shape of accepted paths, re-serialisation escapes backslashes/controls for all URL records, and end to end for standalone mode: Canonical / Clean(Canonical) yields the fallback or a Location that the WHATWG model resolves to the request origin, for every parameter; AbsoluteValidator accepts only http(s) URLs whose Go host is the allowed domain or a dot-suffix of it and whose authority text is what a WHATWG parser reads (no backslash / # / userinfo confusion). 4.4 M strings (exhaustive up to length 5 over a 17-symbol alphabet, repo test strings, random) go through the real functions of all three modes and must agree with the model; every emitted non-fallback Location is resolved by Node 20 and must stay on the allowed origin.",
            "Trusts: Coq kernel; transliterations of Go's net/url, path, net/http tied by differential only; WHATWG model validated against Node only, IDNA as a parameter. SSO-server / SSO-proxy modes: proved up to authority agreement; the final origin step is covered by the differential + Node monitor, not by a theorem (partial). Handler call sites other than Canonical/Clean/LoginRelative are not driven.",
            "5/C04"),
    "C09": ("Coq theorems on the symbolic crypter (ideal AEAD), nonce freshness, opacity of the login flow, data-key separation of the machine + exhaustive bit-flip / truncation / swap differential on the real cipher and stack",
            "c09_*: round trip and only under the sealing key; whatever decrypts was sealed untouched under that key; every modification / truncation / foreign string is rejected under every key; no nonce repeats over any sequence of encryptions; the PKCE verifier reaches the browser only inside the login cookie (the URL carries S256 of it); a request obtains a session only through a store entry that the data key in its own cookie opens; garbage / absent / non-ticket cookies are answered sessionless. `wwh crypto` flips EVERY bit and takes every prefix / suffix of real XChaCha20-Poly1305 ciphertexts of 7 sizes (6 944 cases), checks 20 000 nonces, runs a swap matrix (other session, other cookie type, other deployment key, ticket with another data key, store blob of B under key A, bit flips) through the real stack on both stores and scans every cookie / store value for tokens, verifier and keys.",
            "PARTIAL: 'tamper-evident for every bit' is a fact about XChaCha20-Poly1305 that Coq does not prove; it enters as the ideal-AEAD rule and is supported (not proved) by the exhaustive bit-flip run. legacy-cookie=true is outside the quantifier (recorded under C15).",
            "5/C09"),
    "C12": ("Coq theorems (doublestar loop on the fragment = declarative Matches: soundness, completeness, termination; NeedsLogin, cache, handler) + exhaustive differential vs doublestar and the real router",
            "c12_*: glob_exec = Matches on the fragment (literals, *, **, /) with the exact side conditions (each refuted without), pattern normalisation of New, forwarded => some pattern matches the cleaned + trimmed path (c12_forwarded_matches_clean, the property's statement on the fixed code), dot-segment bypass refuted for the pre-fix code (fixed in /repo), memoisation = un-memoised decision for every call sequence, 302/401 + Location shape. 3 M pattern x name pairs (exhaustive over {a,b,/,.,*} to length 5) against doublestar.Match and path.Clean, NeedsLogin call sequences against the real AutoLogin, and ~7 k requests (dot segments, %2F, //, methods, fetch-metadata combinations) through the real router with a recording upstream.",
            "Trusts: Coq kernel; byte-wise model of doublestar (runes in Go; invalid UTF-8 excluded), fragment without ? [ ] { } \\ for the theorems (GlobFull.v covers them by differential only). Known finding: doublestar under-matches '<seg>*/**' against '<seg>' (fails closed).",
            "5/C12"),
    "C13": ("Coq theorems on the symbolic login / logout model (all requests, ingress sets, histories) + differential on the real router with PAR / private-key variants",
            "c13_*: request shape (code, query, S256 of the verifier draw), three distinct fresh draws per attempt and NoDup over every history, cookie seals exactly the attempt's values, redirect_uri / post-logout URI = callback of a configured ingress whose host is the Host or X-Forwarded-Host header and whose path is the longest configured prefix (for every order of Go's map iteration; no match => nothing sent), acr / locale / prompt allow-lists, PAR shows the browser only client_id + request_uri, credentials never in the front channel. 3 600 login / logout requests over ingress sets x acr defaults x PAR x client auth through the real router agree with the model; the monitor checks S256, cookie binding, uniqueness and length of all random values, verified client assertions (iss, sub, aud, 30 s, unique jti) and scans everything browser-visible for credentials.",
            "Partial on 'unpredictable': that crypto/rand yields 256 bits of entropy is assumed; the theorem shows the values are fresh draws used nowhere else and the run measures length and uniqueness. Trusts as C02.",
            "5/C13"),
    "C14": ("Coq theorems (attribute rules for every Set-Cookie of every handler site; set/clear scope table; RFC 6265 jar) + differential on the real router and net/http/cookiejar",
            "c14_*: for every configuration, request and handler site every cookie is HttpOnly, Secure iff configured, SameSite=None only when configured (login cookie always Lax); validate with secure=false implies every ingress is http + localhost; scope rules for standalone / SSO; clear has the same (name, domain, path) as set (unconditionally for SSO and the logout cookie, otherwise under 'same matched path at both requests'); in the jar model set-then-clear leaves nothing, hence no session cookie after logout, no login cookie after callback, no logout cookie after the logout callback. c14_nested_prefix_refuted: without the same-path hypothesis the property fails (known findings). 127 k cases: URL / ingress parsing, Validate, MatchingPath, 508 browser histories over 35 configurations through the real router with every Set-Cookie compared and replayed into net/http/cookiejar and the jar model.",
            "Trusts: Coq kernel; net/url in an ASCII fragment (anything else is 'unmodelled', never 'ok'); RFC 6265 jar validated against net/http/cookiejar only. Known findings: clear-path differs from set-path when ingress paths are nested or when another host's prefix is used.",
            "5/C14"),
    "C17": ("Coq theorems (retry counter machine, terminal page after three 307s for every failure sequence, cookie scope returns the counter, rate-limit window) + browser-following differential under the fake clock",
            "c17_*: respondError is exactly a counter machine on the retry cookie; any maximal run of auto-retry 307s is <= 3 (pinned to the compiled constant) and persistent failures end in the error page; 429 is never retried; the retry cookie's Path covers the retry target for every failed request (c17_retry_cookie_returns_fixed; c17_retry_scope_refuted documents the pre-fix prefix defect, fixed in /repo); counter cleared by successful callback / logout callback / front-channel logout; rate limit: k-th login within the window refused iff k >= logins, counter lapses not before the window and < 1 s after it (c17_subsecond_window_refuted documents the pre-fix Max-Age truncation, fixed in /repo), never limited without a session or when disabled. 3 253 cases: counter values through the real router, browser-followed chains over 8 ingress set-ups, rate-limit scripts at window -1 ns / window / +1 ns on the fake clock.",
            "Trusts: Coq kernel; jar model as C14. The composition of the counter machine with the jar-level browser is covered by correspondence and examples, not by a single end-to-end theorem. Hand-edited negative counters are outside 'a browser that keeps cookies'.",
            "5/C17"),
    "C15": ("Coq theorems (route table never reaches the catch-all under an owned routing key; fetch-metadata gate; no-cache; html/template escapers on all byte strings) + router sweep, rendered-page differential, token scan",
            "c15_*: for every configuration, method and path whose routing key lies under <prefix>/oauth2 the route is never the catch-all (exact iff characterisation; the canonical spelling of an owned path is never proxied; c15_escaped_path_refuted: percent-escaped spellings are - known finding); interactive endpoints answer 401 to recognisable non-navigations and their handlers never run; every response generated inside the mount for a known method is no-cache; html_escape output has no < > \" ' NUL and every & starts an entity; the href value never has a script-capable scheme. The route table is pinned against chi.Walk of the real router for 38 configurations; 1.18 M routing cases, 47 k rendered error-page regions compared byte for byte, 19 k end-to-end responses scanned for every minted token.",
            "Trusts: Coq kernel; chi's radix tree abstracted to a flat table tied by the sweep; html/template escapers and net/url setPath transliterated and tied by differential. Part 3 (no token in owned responses) is decided dynamically (scan), not by a theorem. Known findings: escaped owned paths, 405 for unknown methods and the SSO proxy's 502 lack no-cache headers; legacy-cookie flag.",
            "5/C15"),
    "C16": ("Coq theorems (rs/cors origin test on all byte strings; router CORS placement; SSO-proxy threads of the machine are read-only) + differential on the real router / rs/cors + shared-store histories",
            "c16_*: for every domain without '*' and ':' and every browser-producible origin, acceptance implies https, no port, host = domain or sub-domain (exact iff characterisation, completeness, refutations showing each hypothesis is needed); credentials only with an allowed origin, preflight only for registered methods, CORS only on the SSO endpoints; every KSsoProxy thread of the machine stays in read/done phases and leaves the world unchanged in every run; the server's Wildcard never proxies. 240 k origin / method / path cases through the real router with real rs/cors agree with the model; proxy + server histories over one wrapped Redis show only GETs from the proxy.",
            "Trusts: Coq kernel; ASCII lower-casing (non-ASCII case folding of Go excluded), rs/cors modelled for the options wonderwall uses. Domains containing '*' or ':' are outside the property's quantifier (they are accepted by config validation: observation recorded in DESIGN.md).",
            "5/C16"),
    "C01": ("Coq theorems on the session machine (token decision, direct path, refresh identity) + differential histories/faults/schedules vs the real stack",
            "Theorems c01_* over Model/Machine.v: a token is written only for a session record that is unexpired and satisfies the level, it is that record's token / ID token; on the direct path the record is the store entry opened by the cookie's data key at that very moment; conversely a valid session is always served and a non-session never. The model is tied to the real router+handlers+session manager+store by per-event conformance (operation, outcome, store snapshot) on generated histories, fault sequences and exhaustive 2-thread schedules under a fake clock; a monitor written from the property text checks every forwarded header on the implementation's traces.",
            "Trusts: Coq kernel; hand-written machine model tied by differential conformance; tokens/keys as abstract ids (ideal encryption); fake identity provider; miniredis as Redis. The refresh path's 'current token' clause is covered by the monitor on traces (the theorem covers the decision function and the direct path).",
            "5/C01"),
    "C05": ("Coq invariant over all event lists (absent stays absent; later requests sessionless) + exhaustive interleavings on the real stack",
            "c05_deleted_stays_deleted / c05_later_requests_unauthenticated hold for every schedule, number of threads, fault sequence and crash point of the machine with the conditional write; c05_update_race_refuted documents the pre-fix defect (fixed in /repo), c05_relogin_overwrite_refuted the remaining known finding (re-login under the same provider session id during an in-flight refresh). Exhaustive 2-thread interleavings of every logout variant with refresh/proxy requests, crashes, and histories run on the real code and must agree with the model event by event.",
            "Trusts as C01. Hypothesis of the theorems: no re-login under the same session id in the continuation (dropping it is refuted; that case is a recorded known finding). Browser-side cookie clearing is C14's.",
            "5/C05"),
    "C06": ("Coq invariant over all event lists (end = creation + max lifetime for every record anywhere) + boundary histories",
            "c06_life_invariant: in every reachable state every session record (stored or held by any request) ends at creation + max lifetime and, with inactivity, has a deadline <= last refresh + timeout; acceptance implies now <= both (c06_accepted_within_lifetime, c06_validate_exact). Histories place the clock at +-1 ns / +-1 s of every boundary on the real stack (fake clock) and the endpoint table (401 / inactive-but-readable) is checked by the monitor.",
            "Trusts as C01.", "5/C06"),
    "C07": ("Coq invariant (fresh lock tokens => at most one valid lock holder, all schedules) + exhaustive interleavings on both stores",
            "c07_mutual_exclusion: for every event list, at most one thread is a valid holder of a session's refresh lock (Redis lock and in-memory lock). c07_memory_store_refuted documents the pre-fix no-op lock (fixed in /repo). Clauses (ii)-(v) (refresh token presented once, one grant per cooldown, previous-or-new token, stored pair issued together) are decided by the monitor over exhaustive 2-thread (sampled 3-thread in thorough) interleavings on the real stack with the provider log, in agreement with the model.",
            "Trusts as C01. The 'presented at most once' clause is proved only through mutual exclusion + the model's agreement with the code on all explored schedules (no separate Coq theorem for it); lease assumed not to expire while held, as the property allows.",
            "5/C07"),
    "C10": ("Coq invariant over all event lists (every entry and lock expiry-bounded; crash = thread never run again) + TTL observation after every step",
            "c10_ttl_invariant for every schedule / fault / crash: every session entry has an expiry <= now + max lifetime, every lock <= now + lease; consequences c10_live_entry_ttl (0 < ttl <= L) and c10_lock_gone_after_lease. The harness reads the TTL of every key in (mini)Redis after every scheduling step, including crash runs with every operation boundary as abandonment point, and compares with the model.",
            "Trusts as C01. The sharper bound 'counted from that session's creation' is checked by the monitor; it fails only in the recorded re-login overwrite scenario (known finding shared with C05).",
            "5/C10"),
    "C11": ("Coq step lemmas quantified over the fault argument (fail-closed, absorption, strict logout) + fault grid on the real stack",
            "c11_* theorems: token only from a session record and never expired; a session is entered only through a successful un-faulted read; provider 4xx => unauthenticated in every handler; transient store fault / 5xx within the retry budget is a stutter; logout variants report success only after an answered lookup and an executed delete. Faults (store error, cancellation, 4xx, 5xx, malformed body) are injected at every operation position of every request kind on the real stack (fake clock makes back-offs free) and must agree with the model; the monitor checks the property clauses on the traces.",
            "Trusts as C01; retry budget is the time budget of pkg/retry (pinned 5 s).", "5/C11"),
    "C18": ("Coq obligations over the regenerated log-site table and the banner-masking model + scan of every log line of the explored runs and of the built binary's start-up output",
            "c18_sites_public: every logging call site of the current source tree (table regenerated from /repo's Go AST on every run) passes only classified non-secret argument expressions - a new log statement with an unclassified argument breaks the obligation; c18_banner_masked: the masked configuration copy printed at start-up contains none of the configured secrets (c18_banner_uri_refuted documents the pre-fix leak of a password embedded in redis.uri, fixed in /repo). Dynamically: ~135 k log entries (debug level) of session-machine histories, fault sequences, schedules and login / callback cross products are scanned for every token, verifier, cookie value, data key, deployment key, client secret, private JWK and assertion minted in that run (raw / base64 / base64url), and the built binary is started 256 times with every subset of secrets x supply channel x provider and its output scanned.",
            "PARTIAL: the classification of log-site argument expressions (lib/log_classes.json) and the meaning of the classes (errors interpolate only public text, user input, identifiers, library errors; provider error bodies contain no wonderwall secret) are trusted; third-party logging is covered by the dynamic scan only.",
            "5/C18"),
}

ALL = ["C%02d" % i for i in range(1, 21)]
PENDING_REASON = "pending: the Coq model and correspondence driver for this property are not built yet in this revision (see DESIGN.md section 10 build order); not claimed until its check exists"


def main():
    checks = []
    for cid in ALL:
        if cid not in CLAIMED:
            continue
        tech, text, note, ref = CLAIMED[cid]
        checks.append({
            "property_id": cid,
            "quick_cmd": "./check %s --tier quick" % cid,
            "thorough_cmd": "./check %s --tier thorough" % cid,
            "evidence_file": "/verif/evidence/%s.json" % cid,
            "replay_cmd_template": "./check %s --replay {path}" % cid,
            "engine": "coq-model+correspondence",
            "level_claimed": {"category": "proof", "text": text, "design_ref": "DESIGN.md section " + ref},
            "level_note": note,
            "technique": tech,
        })
    m = {
        "version": 1,
        "setup_cmd": "./check --setup",
        "hooks": {
            "guard": "verif",
            "enable": "go build -tags verif (GOEXPERIMENT=synctest for the harness only)",
            "baseline_off_cmd": "cd /repo && go build ./... && go test -vet=off -count=1 -timeout 25m ./...",
            "source_commits": json.load(open(os.path.join(ROOT, "lib", "hook_commits.json"))),
            "add_only": True,
        },
        "engines": [{
            "name": "coq-model+correspondence", "path": "/verif/check",
            "serves_properties": sorted(CLAIMED),
            "kind_free_text": "Coq 8.16.1 theorems over a hand-written Gallina model; model extracted to OCaml and run against the real Go packages (harness built with -tags verif) on the same inputs/histories/schedules; property monitors on the implementation's observations supply concrete failing inputs",
        }],
        "checks": checks,
        "not_applicable": [{"property_id": c, "reason": PENDING_REASON} for c in ALL if c not in CLAIMED],
        "notes": "All checks share one Coq build (coq/), one extracted model (build/ml) and one Go harness (harness/, built against /repo's working tree on every run). See DESIGN.md.",
    }
    with open(os.path.join(ROOT, "MANIFEST.json"), "w") as f:
        json.dump(m, f, indent=1)
        f.write("\n")


if __name__ == "__main__":
    main()
