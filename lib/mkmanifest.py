#!/usr/bin/env python3
"""Regenerates MANIFEST.json from the table below (kept in one place so it stays valid)."""
import json
import os

ROOT = os.path.dirname(os.path.dirname(os.path.abspath(__file__)))

# id -> (technique, level text, level note, design section)
CLAIMED = {
    "C08": ("Coq proof over Z (SessionTime) + grid differential vs real Metadata under exact fake clock",
            "Theorems c08_* (never early, always once expired, cooldown blocks and is <= 1 min, refresh opportunity, exact schedule, metadata consistency) proved for all integer timestamps over Model/SessionTime.v instantiated at the constants dumped from the compiled code; the model is tied to pkg/session/data.go by an exhaustive boundary grid evaluated on the real Metadata methods under testing/synctest.",
            "Trusts: Coq kernel; hand-written transliteration tied by the differential grid; no int64 overflow; Go zero time = absent timeout. Pins: leeway = 5 min, min interval = 1 min.",
            "5/C08"),
    "C01": ("Coq theorems on the session machine (token decision, direct path, refresh identity) + differential histories/faults/schedules vs the real stack",
            "Theorems c01_* over Model/Machine.v: a token is written only for a session record that is unexpired and satisfies the level, it is that record's token / ID token; on the direct path the record is the store entry opened by the cookie's data key at that very moment; conversely a valid session is always served and a non-session never. The model is tied to the real router+handlers+session manager+store by per-event conformance (operation, outcome, store snapshot) on generated histories, fault sequences and exhaustive 2-thread schedules under a fake clock; a monitor written from the property text checks every forwarded header on the implementation's traces.",
            "Trusts: Coq kernel; hand-written machine model tied by differential conformance; tokens/keys as abstract ids (ideal encryption); fake identity provider; miniredis as Redis. The refresh path's 'current token' clause is covered by the monitor on traces (the theorem covers the decision function and the direct path).",
            "5/C01"),
    "C05": ("Coq invariant over all event lists (absent stays absent; later requests sessionless) + exhaustive interleavings on the real stack",
            "c05_deleted_stays_deleted / c05_later_requests_unauthenticated hold for every schedule, number of threads, fault sequence and crash point of the machine with the conditional write; c05_update_race_refuted documents the pre-fix defect (fixed in /repo), c05_relogin_overwrite_refuted the remaining known finding (re-login under the same provider session id during an in-flight refresh). Exhaustive 2-thread interleavings of every logout variant with refresh/proxy requests, crashes, and histories run on the real code and must agree with the model event by event.",
            "Trusts as C01. Hypothesis of the theorems: no re-login under the same session id in the continuation (dropping it is refuted; that case is a recorded known finding). Browser-side cookie clearing is C14's.",
            "5/C05"),
    "C06": ("Coq invariant over all event lists (end = creation + max lifetime for every record anywhere) + boundary histories",
            "c06_life_invariant: in every reachable state every session record (stored or held by any request) ends at creation + max lifetime and, with inactivity, has a deadline <= last refresh + timeout; acceptance implies now <= both (c06_accepted_within_lifetime, c06_validate_exact). Histories place the clock at +-1 ns / +-1 s of every boundary on the real stack (fake clock) and the endpoint table (401 / inactive-but-readable) is checked by the monitor.",
            "Trusts as C01.", "5/C06"),
    "C07": ("Coq invariant (fresh lock tokens => at most one valid lock holder, all schedules) + exhaustive interleavings on both stores",
            "c07_mutual_exclusion: for every event list, at most one thread is a valid holder of a session's refresh lock (Redis lock and in-memory lock). c07_memory_store_refuted documents the pre-fix no-op lock (fixed in /repo). Clauses (ii)-(v) (refresh token presented once, one grant per cooldown, previous-or-new token, stored pair issued together) are decided by the monitor over exhaustive 2-thread (sampled 3-thread in thorough) interleavings on the real stack with the provider log, in agreement with the model.",
            "Trusts as C01. The 'presented at most once' clause is proved only through mutual exclusion + the model's agreement with the code on all explored schedules (no separate Coq theorem for it); lease assumed not to expire while held, as the property allows.",
            "5/C07"),
    "C10": ("Coq invariant over all event lists (every entry and lock expiry-bounded; crash = thread never run again) + TTL observation after every step",
            "c10_ttl_invariant for every schedule / fault / crash: every session entry has an expiry <= now + max lifetime, every lock <= now + lease; consequences c10_live_entry_ttl (0 < ttl <= L) and c10_lock_gone_after_lease. The harness reads the TTL of every key in (mini)Redis after every scheduling step, including crash runs with every operation boundary as abandonment point, and compares with the model.",
            "Trusts as C01. The sharper bound 'counted from that session's creation' is checked by the monitor; it fails only in the recorded re-login overwrite scenario (known finding shared with C05).",
            "5/C10"),
    "C11": ("Coq step lemmas quantified over the fault argument (fail-closed, absorption, strict logout) + fault grid on the real stack",
            "c11_* theorems: token only from a session record and never expired; a session is entered only through a successful un-faulted read; provider 4xx => unauthenticated in every handler; transient store fault / 5xx within the retry budget is a stutter; logout variants report success only after an answered lookup and an executed delete. Faults (store error, cancellation, 4xx, 5xx, malformed body) are injected at every operation position of every request kind on the real stack (fake clock makes back-offs free) and must agree with the model; the monitor checks the property clauses on the traces.",
            "Trusts as C01; retry budget is the time budget of pkg/retry (pinned 5 s).", "5/C11"),
}

ALL = ["C%02d" % i for i in range(1, 21)]
PENDING_REASON = "pending: the Coq model and correspondence driver for this property are not built yet in this revision (see DESIGN.md section 10 build order); not claimed until its check exists"


def main():
    checks = []
    for cid in ALL:
        if cid not in CLAIMED:
            continue
        tech, text, note, ref = CLAIMED[cid]
        checks.append({
            "property_id": cid,
            "quick_cmd": "./check %s --tier quick" % cid,
            "thorough_cmd": "./check %s --tier thorough" % cid,
            "evidence_file": "/verif/evidence/%s.json" % cid,
            "replay_cmd_template": "./check %s --replay {path}" % cid,
            "engine": "coq-model+correspondence",
            "level_claimed": {"category": "proof", "text": text, "design_ref": "DESIGN.md section " + ref},
            "level_note": note,
            "technique": tech,
        })
    m = {
        "version": 1,
        "setup_cmd": "./check --setup",
        "hooks": {
            "guard": "verif",
            "enable": "go build -tags verif (GOEXPERIMENT=synctest for the harness only)",
            "baseline_off_cmd": "cd /repo && go build ./... && go test -vet=off -count=1 -timeout 25m ./...",
            "source_commits": json.load(open(os.path.join(ROOT, "lib", "hook_commits.json"))),
            "add_only": True,
        },
        "engines": [{
            "name": "coq-model+correspondence", "path": "/verif/check",
            "serves_properties": sorted(CLAIMED),
            "kind_free_text": "Coq 8.16.1 theorems over a hand-written Gallina model; model extracted to OCaml and run against the real Go packages (harness built with -tags verif) on the same inputs/histories/schedules; property monitors on the implementation's observations supply concrete failing inputs",
        }],
        "checks": checks,
        "not_applicable": [{"property_id": c, "reason": PENDING_REASON} for c in ALL if c not in CLAIMED],
        "notes": "All checks share one Coq build (coq/), one extracted model (build/ml) and one Go harness (harness/, built against /repo's working tree on every run). See DESIGN.md.",
    }
    with open(os.path.join(ROOT, "MANIFEST.json"), "w") as f:
        json.dump(m, f, indent=1)
        f.write("\n")


if __name__ == "__main__":
    main()
