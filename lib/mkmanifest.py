#!/usr/bin/env python3
"""Regenerates MANIFEST.json from the table below (kept in one place so it stays valid)."""
import json
import os

ROOT = os.path.dirname(os.path.dirname(os.path.abspath(__file__)))

# id -> (technique, level text, level note, design section)
CLAIMED = {
    "C08": ("Coq proof over Z (SessionTime) + grid differential vs real Metadata under exact fake clock",
            "Theorems c08_* (never early, always once expired, cooldown blocks and is <= 1 min, refresh opportunity, exact schedule, metadata consistency) proved for all integer timestamps over Model/SessionTime.v instantiated at the constants dumped from the compiled code; the model is tied to pkg/session/data.go by an exhaustive boundary grid evaluated on the real Metadata methods under testing/synctest.",
            "Trusts: Coq kernel; hand-written transliteration tied by the differential grid; no int64 overflow; Go zero time = absent timeout. Pins: leeway = 5 min, min interval = 1 min.",
            "5/C08"),
}

ALL = ["C%02d" % i for i in range(1, 21)]
PENDING_REASON = "pending: the Coq model and correspondence driver for this property are not built yet in this revision (see DESIGN.md section 10 build order); not claimed until its check exists"


def main():
    checks = []
    for cid in ALL:
        if cid not in CLAIMED:
            continue
        tech, text, note, ref = CLAIMED[cid]
        checks.append({
            "property_id": cid,
            "quick_cmd": "./check %s --tier quick" % cid,
            "thorough_cmd": "./check %s --tier thorough" % cid,
            "evidence_file": "/verif/evidence/%s.json" % cid,
            "replay_cmd_template": "./check %s --replay {path}" % cid,
            "engine": "coq-model+correspondence",
            "level_claimed": {"category": "proof", "text": text, "design_ref": "DESIGN.md section " + ref},
            "level_note": note,
            "technique": tech,
        })
    m = {
        "version": 1,
        "setup_cmd": "./check --setup",
        "hooks": {
            "guard": "verif",
            "enable": "go build -tags verif (GOEXPERIMENT=synctest for the harness only)",
            "baseline_off_cmd": "cd /repo && go build ./... && go test -vet=off -count=1 -timeout 25m ./...",
            "source_commits": json.load(open(os.path.join(ROOT, "lib", "hook_commits.json"))),
            "add_only": True,
        },
        "engines": [{
            "name": "coq-model+correspondence", "path": "/verif/check",
            "serves_properties": sorted(CLAIMED),
            "kind_free_text": "Coq 8.16.1 theorems over a hand-written Gallina model; model extracted to OCaml and run against the real Go packages (harness built with -tags verif) on the same inputs/histories/schedules; property monitors on the implementation's observations supply concrete failing inputs",
        }],
        "checks": checks,
        "not_applicable": [{"property_id": c, "reason": PENDING_REASON} for c in ALL if c not in CLAIMED],
        "notes": "All checks share one Coq build (coq/), one extracted model (build/ml) and one Go harness (harness/, built against /repo's working tree on every run). See DESIGN.md.",
    }
    with open(os.path.join(ROOT, "MANIFEST.json"), "w") as f:
        json.dump(m, f, indent=1)
        f.write("\n")


if __name__ == "__main__":
    main()
