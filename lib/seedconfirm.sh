#!/bin/bash
# usage: seedconfirm.sh <ID> <demo-pkg-dir> <run-regex>
# Confirms a seeded change in its scratch worktree /tmp/seed-<ID> (patch applied there):
#  demo FAILS with the change, PASSES without it, build ok, whole pinned suite passes with the change.
set -u
ID=$1; PKG=$2; RX=$3
P=${SEEDPREFIX:-seed}; W=/tmp/$P-$ID; O=/tmp/$P-$ID-out
export GOFLAGS=-mod=mod GOPROXY=off
cd $W || exit 2
DEMO=$(ls $O/*_test.go | head -1)
cp $DEMO $W/$PKG/
go build ./... && go build -tags verif ./... || { echo "BUILD FAIL"; exit 1; }
go test -vet=off -count=1 -run "$RX" ./$PKG/ > $O/demo_with.log 2>&1; w=$?
git stash -q -- $(git diff --name-only) 
go test -vet=off -count=1 -run "$RX" ./$PKG/ > $O/demo_without.log 2>&1; wo=$?
git stash pop -q
rm -f $W/$PKG/$(basename $DEMO)
go test -vet=off -count=1 ./... > $O/suite_with.log 2>&1; s=$?
echo "$ID demo_with_exit=$w (want 1) demo_without_exit=$wo (want 0) suite_with_exit=$s (want 0)"
git status --short | head
