#!/bin/bash
# usage: [SEEDPREFIX=seed2] seedconfirm.sh <ID> [<demo-pkg-dir> [<run-regex>]]
# Confirms a seeded change in its scratch worktree /tmp/<prefix>-<ID> (patch applied there):
#  demo FAILS with the change, PASSES without it, build ok, whole pinned suite passes with the change.
# Package directory and -run regex are derived from the demonstration file(s) when not given.
set -u
ID=$1
P=${SEEDPREFIX:-seed}; W=/tmp/$P-$ID; O=/tmp/$P-$ID-out
export GOFLAGS=-mod=mod GOPROXY=off
cd $W || exit 2
# start from the delivered patch, whatever state the worktree was left in
git reset -q && git checkout -q -- . && git clean -fdq && git apply $O/patch.diff || { echo "$ID PATCH DOES NOT APPLY"; exit 1; }
DEMOS=$(ls $O/*_test.go)
pkgdir() { # package clause -> directory
  local pk=$(grep -m1 '^package ' $1 | awk '{print $2}'); pk=${pk%_test}
  case $pk in
    handler) echo pkg/handler;; session) echo pkg/session;; client) echo pkg/openid/client;; config) echo pkg/config;;
    server) echo pkg/server;; url) echo pkg/url;; openid) echo pkg/openid;; cookie) echo pkg/cookie;; crypto) echo internal/crypto;;
    ingress) echo pkg/ingress;; middleware) echo pkg/middleware;; router) echo pkg/router;; autologin) echo pkg/handler/autologin;;
    provider) echo pkg/openid/provider;; acr) echo pkg/openid/acr;; http) echo internal/http;; retry) echo pkg/retry;; main) echo cmd/wonderwall;;
    *) grep -rl "^package $pk\$" --include=*.go . | head -1 | xargs dirname | sed 's#^\./##';;
  esac
}
w=0; wo=0
go build ./... && go build -tags verif ./... || { echo "$ID BUILD FAIL"; exit 1; }
for D in $DEMOS; do
  TAGS=""; if grep -q '^//go:build verif' $D; then TAGS="-tags verif"; fi
  PKG=${2:-$(pkgdir $D)}
  RX=${3:-$(grep -ho 'func Test[A-Za-z0-9_]*' $D | sed 's/func //' | paste -sd'|')}
  for E in $DEMOS; do [ "$(pkgdir $E)" = "$PKG" ] && cp $E $W/$PKG/; done
  go test $TAGS -vet=off -count=1 -run "^($RX)\$" ./$PKG/ > $O/demo_with.$(basename $D).log 2>&1 || w=1
  # (not git stash: the stash is shared between all worktrees of a repository)
  git diff > $O/.cur.diff
  git apply -R $O/.cur.diff
  go test $TAGS -vet=off -count=1 -run "^($RX)\$" ./$PKG/ > $O/demo_without.$(basename $D).log 2>&1 || wo=1
  git apply $O/.cur.diff
  for E in $DEMOS; do rm -f $W/$PKG/$(basename $E); done
  echo "   demo $(basename $D) in $PKG"
done
go test -vet=off -count=1 ./... > $O/suite_with.log 2>&1; s=$?
echo "$ID demo_with_exit=$w (want 1) demo_without_exit=$wo (want 0) suite_with_exit=$s (want 0)"
git status --short | head
