#!/usr/bin/env python3
"""Show the first differing event of machine scenarios: mdiff.py prefix"""
import sys
pre = sys.argv[1]
a = open(pre + '.in').read().split('\n'); b = open(pre + '.impl').read().split('\n'); c = open(pre + '.model').read().split('\n')
bad = 0
for i, (x, y, z) in enumerate(zip(a, b, c)):
    if y != z:
        bad += 1
        evs = x.split(' | '); ys = y.split(' | '); zs = z.split(' | ')
        for j, (e, p, q) in enumerate(zip(evs[1:], ys, zs)):
            if p != q:
                print('scenario', i, evs[0]); print(' event', j, e); print('  impl ', p); print('  model', q)
                print('  events so far:', ' | '.join(evs[1:j + 2]))
                print('  impl obs so far:', ' | '.join(ys[max(0,j-3):j + 1]))
                break
        if bad >= int(sys.argv[2]) if len(sys.argv) > 2 else 3:
            break
print('mismatching scenarios:', sum(1 for y, z in zip(b, c) if y != z), 'of', len(b) - 1)
