#!/bin/bash
# usage: lib/seedbatch.sh <prefix> <suffix> ID...   e.g. lib/seedbatch.sh seed3 r3 C01 C02
# For each ID with /tmp/<prefix>-<ID>-out/patch.diff: confirm it in its scratch worktree (build, suite, demo with/without), keep it as
# seeded/<ID><suffix>/ and run the property's own check against it. Prints one summary line per ID.
cd "$(dirname "$0")/.."
P=$1; S=$2; shift 2
for ID in "$@"; do
  O=/tmp/$P-$ID-out
  [ -f $O/patch.diff ] || { echo "$ID: no patch yet"; continue; }
  c=$(SEEDPREFIX=$P lib/seedconfirm.sh $ID 2>&1 | grep "demo_with_exit")
  case "$c" in *"demo_with_exit=1 (want 1) demo_without_exit=0 (want 0) suite_with_exit=0"*) ok=1;; *) ok=0;; esac
  if [ $ok -ne 1 ]; then echo "$ID: NOT CONFIRMED: $c"; continue; fi
  D=seeded/$ID$S; mkdir -p $D
  cp $O/patch.diff $O/*_test.go $D/ 2>/dev/null; cp $O/NOTES.md $D/ 2>/dev/null
  r=$(python3 lib/seedrun.py $D ${ID} 2>&1 | grep -v "^   ")
  echo "$ID: confirmed; $r"
done
