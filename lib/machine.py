"""Running the session-machine driver (wwh machine) in parallel shards, the extracted model on the
same scenarios, and parsing scenario / observation lines for the property monitors."""
import os
import subprocess
import time
from concurrent.futures import ThreadPoolExecutor

from lib import vf

SEC = 10**9
LEEWAY = 300 * SEC
COOLDOWN_MAX = 60 * SEC
LOCK_LEASE = 10 * SEC

# flags describing the structure of the current code (see Model/Machine.v c_upd_atomic, c_memlock, c_logout_strict)
CODE_FLAGS = {"upd_atomic": False, "mem_lock": False, "logout_strict": False}


def code_flags():
    p = os.path.join(vf.ROOT, "lib", "code_flags.json")
    if os.path.exists(p):
        import json
        return json.load(open(p))
    return dict(CODE_FLAGS)


def run_machine(ctx, name, mode, n, seed, shards=16, extra=None, store="both"):
    """Run `wwh machine` in shards; returns (infile, implfile) of the concatenated outputs."""
    fl = code_flags()
    args = ["machine", "-mode", mode, "-n", str(n), "-seed", str(seed), "-shards", str(shards), "-store", store]
    if fl["upd_atomic"]:
        args.append("-upd-atomic")
    if fl["mem_lock"]:
        args.append("-mem-lock")
    if fl["logout_strict"]:
        args.append("-logout-strict")
    args += extra or []
    t0 = time.time()

    def one(i):
        pre = ctx.path("%s-%d" % (name, i))
        p = subprocess.run([vf.WWH] + args + ["-shard", str(i), "-out", pre], env=vf.goenv(), stdout=subprocess.PIPE,
                           stderr=subprocess.STDOUT, text=True, timeout=3000)
        if p.returncode != 0:
            raise vf.InfraError("wwh machine shard %d failed: %s" % (i, p.stdout[-3000:]))
        return pre

    with ThreadPoolExecutor(max_workers=min(shards, 16)) as ex:
        pres = list(ex.map(one, range(shards)))
    infile, implfile = ctx.path(name + ".in"), ctx.path(name + ".impl")
    with open(infile, "w") as fi, open(implfile, "w") as fo:
        for pre in pres:
            fi.write(open(pre + ".in").read())
            fo.write(open(pre + ".impl").read())
            os.remove(pre + ".in")
            os.remove(pre + ".impl")
    ctx.timings[name] = round(time.time() - t0, 2)
    return infile, implfile


# --------------------------------------------------------------------------- parsing

class Entry:
    __slots__ = ("k", "ttl", "dek", "at", "rt", "acr", "created", "ends", "timeout", "expire", "refreshed")

    def __init__(self, v):
        (self.k, self.ttl, self.dek, self.at, self.rt, self.acr, self.created, self.ends, self.timeout,
         self.expire, self.refreshed) = v


def parse_snapshot(v):
    n = v[0]
    es = {}
    i = 1
    for _ in range(n):
        e = Entry(v[i:i + 11])
        es[e.k] = e
        i += 11
    nl = v[i]
    i += 1
    ls = {}
    for _ in range(nl):
        ls[v[i]] = v[i + 1]
        i += 2
    return es, ls


class Cfg:
    def __init__(self, toks):
        (self.redis, self.sso, self.fwd) = (toks[0] == "1", toks[1] == "1", toks[2] == "1")
        self.inact = None if toks[3] == "-" else int(toks[3])
        self.maxlife = int(toks[4])
        self.acr, self.pacr = int(toks[5]), int(toks[6])
        self.idtok, self.autologin = toks[7] == "1", toks[8] == "1"
        self.upd_atomic, self.memlock, self.logout_strict = toks[9] == "1", toks[10] == "1", toks[11] == "1"
        self.tau = int(toks[12])


class Thread:
    def __init__(self, tid, kind, cookie, idx, now):
        self.tid, self.kind, self.cookie, self.spawn_idx, self.spawn_now = tid, kind, cookie, idx, now
        self.fc_sid = None
        if kind.startswith("fc"):
            s = kind.split(":")[1]
            self.fc_sid = None if s == "-" else int(s)
            self.kind = "fc"
        self.k = self.dek = None
        if cookie.startswith("k:"):
            _, k, d = cookie.split(":")
            self.k, self.dek = int(k), int(d)
        self.ops = []          # (idx, [code, key, res], fault, now)
        self.done_idx = None
        self.done_now = None
        self.outcome = None
        self.cancelled = False
        self.faulted = False


class Scenario:
    """Parsed scenario with the implementation's (or model's) observations."""

    def __init__(self, inline, obsline):
        parts = inline.strip().split(" | ")
        self.cfg = Cfg(parts[0].split()[1:])
        self.cfg_text = parts[0]
        self.events = [p.split() for p in parts[1:]]
        self.raw_in, self.raw_obs = inline.strip(), obsline.strip()
        self.obs = []
        for o in obsline.strip().split(" | "):
            a, b, c = o.split(" -7 ")
            self.obs.append(([int(x) for x in a.split()], [int(x) for x in b.split()], [int(x) for x in c.split()]))
        self.threads = {}
        self.now_at = []
        self.snaps = []
        self.logins = []      # (idx, sid, acr)
        self.provider = [(-1, self.cfg.tau, True)]
        now = 0
        for idx, (ev, (op, out, snap)) in enumerate(zip(self.events, self.obs)):
            if ev[0] == "T":
                now += max(0, int(ev[1]))
            self.now_at.append(now)
            self.snaps.append(parse_snapshot(snap))
            if ev[0] == "L":
                self.logins.append((idx, int(ev[1]), int(ev[2])))
            elif ev[0] == "P":
                self.provider.append((idx, int(ev[1]), ev[2] == "1"))
            elif ev[0] == "S":
                t = Thread(int(ev[1]), ev[2], ev[3], idx, now)
                self.threads[t.tid] = t
                if out[0] != 0:
                    t.done_idx, t.done_now, t.outcome = idx, now, out
            elif ev[0] == "R":
                t = self.threads.get(int(ev[1]))
                if t is not None and op[0] != 0:
                    t.ops.append((idx, op, int(ev[2]), now))
                    if int(ev[2]) != 0:
                        t.faulted = True
                    if out[0] != 0 and t.done_idx is None:
                        t.done_idx, t.done_now, t.outcome = idx, now, out
            elif ev[0] == "X":
                t = self.threads.get(int(ev[1]))
                if t is not None:
                    t.cancelled = True

    def snap_before(self, idx):
        return self.snaps[idx - 1] if idx > 0 else ({}, {})

    def sequential(self, t):
        """no other thread performed an operation or was spawned while t was alive"""
        end = t.done_idx if t.done_idx is not None else len(self.events)
        for o in self.threads.values():
            if o is t:
                continue
            if t.spawn_idx < o.spawn_idx <= end:
                return False
            for (i, _, _, _) in o.ops:
                if t.spawn_idx < i <= end:
                    return False
        return True

    def case(self, extra=None):
        c = {"input": self.raw_in, "impl": self.raw_obs}
        if extra:
            c.update(extra)
        return c


def load_scenarios(infile, obsfile):
    with open(infile) as fi, open(obsfile) as fo:
        for a, b in zip(fi, fo):
            if a.strip():
                yield Scenario(a, b)


def acr_ok(expected, actual):
    e = {3: 1, 4: 2}.get(expected, expected)
    if e == 1:
        return actual in (1, 2)
    if e == 2:
        return actual == 2
    return e == actual


def quot(a, b):
    q = abs(a) // abs(b)
    return q if (a >= 0) == (b >= 0) else -q


def cooldown_end(e):
    life = e.expire - e.refreshed
    if life <= 2 * COOLDOWN_MAX:
        return e.refreshed + quot(life, 2)
    return e.refreshed + COOLDOWN_MAX


def authenticated(out):
    return out is not None and out[0] == 1 and out[1] != -1


def stats(scenarios):
    from collections import Counter
    c = Counter()
    for s in scenarios:
        c["scenarios"] += 1
        c["events"] += len(s.events)
        for t in s.threads.values():
            c["kind:" + t.kind] += 1
            for (_, op, f, _) in t.ops:
                c["op%d:%d" % (op[0], op[2])] += 1
                if f:
                    c["fault:%d" % f] += 1
            if t.outcome:
                if t.outcome[0] == 1:
                    c["out:fwd-token" if t.outcome[1] != -1 else "out:fwd-passthrough"] += 1
                elif t.outcome[0] == 2:
                    c["out:status-%d" % t.outcome[1]] += 1
                elif t.outcome[0] == 3:
                    c["out:metadata"] += 1
            if t.cancelled:
                c["cancelled"] += 1
            if t.done_idx is None:
                c["abandoned"] += 1
    return dict(c)
