#!/usr/bin/env python3
"""Run registered checks against one seeded change.

  lib/seedrun.py <seed-dir> <check-id> [<check-id> ...] [--tier quick|thorough]

Applies <seed-dir>/patch.diff to /repo's working tree (git apply), runs ./check <id> for each id, and ALWAYS undoes the
change (git checkout -- . ; new files the patch created are removed) before returning.  The outcome per check (exit code,
VIOLATION / KNOWN-FINDING lines, duration) is written to <seed-dir>/result.json; replay files the checks wrote are copied to
<seed-dir>/replays/.  Never commits anything in /repo.
"""
import json, os, shutil, subprocess, sys, time

ROOT = os.path.dirname(os.path.dirname(os.path.abspath(__file__)))
REPO = "/repo"


def sh(*a, **k):
    return subprocess.run(*a, **k)


def main():
    args = sys.argv[1:]
    tier = "quick"
    if "--tier" in args:
        i = args.index("--tier")
        tier = args[i + 1]
        del args[i:i + 2]
    seed = os.path.abspath(args[0])
    ids = args[1:]
    patch = os.path.join(seed, "patch.diff")
    if sh(["git", "-C", REPO, "status", "--porcelain"], capture_output=True, text=True).stdout.strip():
        print("refusing: /repo working tree is not clean", file=sys.stderr)
        return 2
    head = sh(["git", "-C", REPO, "rev-parse", "--short", "HEAD"], capture_output=True, text=True).stdout.strip()
    r = sh(["git", "-C", REPO, "apply", "--3way", patch], capture_output=True, text=True)
    if r.returncode != 0:
        r = sh(["git", "-C", REPO, "apply", patch], capture_output=True, text=True)
    if r.returncode != 0:
        print("patch does not apply:\n" + r.stderr, file=sys.stderr)
        sh(["git", "-C", REPO, "checkout", "--", "."])
        return 2
    results = {}
    # evidence/ is committed from clean-tree runs only: keep the current files and put them back afterwards
    saved = {}
    for cid in ids:
        ef = os.path.join(ROOT, "evidence", cid + ".json")
        if os.path.exists(ef):
            saved[ef] = open(ef).read()
    try:
        for cid in ids:
            t0 = time.time()
            p = sh([os.path.join(ROOT, "check"), cid, "--tier", tier], capture_output=True, text=True, cwd=ROOT)
            out = p.stdout + p.stderr
            lines = [l for l in out.splitlines() if l.startswith("VIOLATION") or l.startswith("KNOWN-FINDING")]
            res = {"exit": p.returncode, "seconds": round(time.time() - t0, 1), "lines": lines, "tail": out.splitlines()[-12:]}
            # keep the replay files
            os.makedirs(os.path.join(seed, "replays"), exist_ok=True)
            for l in lines:
                if l.startswith("VIOLATION") and "replay=" in l:
                    rp = l.split("replay=")[1].split()[0]
                    if os.path.exists(rp):
                        shutil.copy(rp, os.path.join(seed, "replays", cid + "-" + os.path.basename(rp)))
            results[cid] = res
            print("%s: exit=%d %d VIOLATION line(s) %.0fs" % (cid, p.returncode, sum(1 for l in lines if l.startswith("VIOLATION")), res["seconds"]))
            for l in lines:
                if l.startswith("VIOLATION"):
                    print("   " + l[:220])
    finally:
        for ef, txt in saved.items():
            open(ef, "w").write(txt)
        sh(["git", "-C", REPO, "reset", "-q"])
        sh(["git", "-C", REPO, "checkout", "--", "."])
        sh(["git", "-C", REPO, "clean", "-fdq"])
        left = sh(["git", "-C", REPO, "status", "--porcelain"], capture_output=True, text=True).stdout.strip()
        if left:
            print("WARNING: /repo not clean after undo:\n" + left, file=sys.stderr)
    rf = os.path.join(seed, "result.json")
    prev = {}
    if os.path.exists(rf):
        prev = json.load(open(rf))
    prev.setdefault("runs", []).append({"repo_head": head, "tier": tier, "when": time.strftime("%Y-%m-%dT%H:%M:%SZ", time.gmtime()),
                                        "verif_head": sh(["git", "-C", ROOT, "rev-parse", "--short", "HEAD"], capture_output=True, text=True).stdout.strip(),
                                        "checks": results})
    json.dump(prev, open(rf, "w"), indent=1)
    return 0


if __name__ == "__main__":
    sys.exit(main())
