(* Line-protocol driver around the extracted model: first token selects the handler. *)
open Common

let () =
  try
    while true do
      let line = input_line stdin in
      if line <> "" then begin
        match String.split_on_char ' ' line with
        | kind :: rest ->
          (match List.assoc_opt kind !handlers with
           | Some f -> (try f rest with e -> print_endline ("?exception " ^ Printexc.to_string e))
           | None -> print_endline ("?unknown " ^ kind))
        | [] -> ()
      end
    done
  with End_of_file -> ()
