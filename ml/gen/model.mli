
val negb : bool -> bool

val fst : ('a1 * 'a2) -> 'a1

type comparison =
| Eq
| Lt
| Gt

val compOpp : comparison -> comparison

type positive =
| XI of positive
| XO of positive
| XH

type n =
| N0
| Npos of positive

type z =
| Z0
| Zpos of positive
| Zneg of positive

module Pos :
 sig
  type mask =
  | IsNul
  | IsPos of positive
  | IsNeg
 end

module Coq_Pos :
 sig
  val succ : positive -> positive

  val add : positive -> positive -> positive

  val add_carry : positive -> positive -> positive

  val pred_double : positive -> positive

  type mask = Pos.mask =
  | IsNul
  | IsPos of positive
  | IsNeg

  val succ_double_mask : mask -> mask

  val double_mask : mask -> mask

  val double_pred_mask : positive -> mask

  val sub_mask : positive -> positive -> mask

  val sub_mask_carry : positive -> positive -> mask

  val mul : positive -> positive -> positive

  val compare_cont : comparison -> positive -> positive -> comparison

  val compare : positive -> positive -> comparison
 end

module N :
 sig
  val succ_double : n -> n

  val double : n -> n

  val sub : n -> n -> n

  val compare : n -> n -> comparison

  val leb : n -> n -> bool

  val pos_div_eucl : positive -> n -> n * n
 end

module Z :
 sig
  val double : z -> z

  val succ_double : z -> z

  val pred_double : z -> z

  val pos_sub : positive -> positive -> z

  val add : z -> z -> z

  val opp : z -> z

  val sub : z -> z -> z

  val mul : z -> z -> z

  val compare : z -> z -> comparison

  val leb : z -> z -> bool

  val ltb : z -> z -> bool

  val of_N : n -> z

  val quotrem : z -> z -> z * z

  val quot : z -> z -> z
 end

val refresh_min_interval : z

val refresh_leeway : z

type tparams = { min_interval : z; leeway : z }

type meta = { created : z; ends : z; timeout : z option; expire : z;
              refreshed : z }

val second : z

val is_ended : meta -> z -> bool

val is_expired : meta -> z -> bool

val is_timed_out : meta -> z -> bool

val token_lifetime : meta -> z

val cooldown_end : tparams -> meta -> z

val on_cooldown : tparams -> meta -> z -> bool

val next_candidate : tparams -> meta -> z

val next_refresh : tparams -> meta -> z -> z

val should_refresh : tparams -> meta -> z -> bool

val to_seconds : z -> z

type verbose = { v_ends_in : z; v_active : bool; v_timeout_in : z;
                 v_expire_in : z; v_next_refresh_in : z; v_cooldown : 
                 bool; v_cooldown_secs : z }

val verbose_of : tparams -> meta -> z -> verbose

type validity =
| Valid
| InvalidNoToken
| InvalidEnded
| InvalidInactive

val validate : bool -> meta -> z -> validity

val p0 : tparams

val zb : bool -> z

val validity_code : validity -> z

val entry_meta : z -> meta -> z list
