
(** val negb : bool -> bool **)

let negb = function
| true -> false
| false -> true

(** val fst : ('a1 * 'a2) -> 'a1 **)

let fst = function
| (x, _) -> x

type comparison =
| Eq
| Lt
| Gt

(** val compOpp : comparison -> comparison **)

let compOpp = function
| Eq -> Eq
| Lt -> Gt
| Gt -> Lt

type positive =
| XI of positive
| XO of positive
| XH

type n =
| N0
| Npos of positive

type z =
| Z0
| Zpos of positive
| Zneg of positive

module Pos =
 struct
  type mask =
  | IsNul
  | IsPos of positive
  | IsNeg
 end

module Coq_Pos =
 struct
  (** val succ : positive -> positive **)

  let rec succ = function
  | XI p -> XO (succ p)
  | XO p -> XI p
  | XH -> XO XH

  (** val add : positive -> positive -> positive **)

  let rec add x y =
    match x with
    | XI p ->
      (match y with
       | XI q -> XO (add_carry p q)
       | XO q -> XI (add p q)
       | XH -> XO (succ p))
    | XO p ->
      (match y with
       | XI q -> XI (add p q)
       | XO q -> XO (add p q)
       | XH -> XI p)
    | XH -> (match y with
             | XI q -> XO (succ q)
             | XO q -> XI q
             | XH -> XO XH)

  (** val add_carry : positive -> positive -> positive **)

  and add_carry x y =
    match x with
    | XI p ->
      (match y with
       | XI q -> XI (add_carry p q)
       | XO q -> XO (add_carry p q)
       | XH -> XI (succ p))
    | XO p ->
      (match y with
       | XI q -> XO (add_carry p q)
       | XO q -> XI (add p q)
       | XH -> XO (succ p))
    | XH ->
      (match y with
       | XI q -> XI (succ q)
       | XO q -> XO (succ q)
       | XH -> XI XH)

  (** val pred_double : positive -> positive **)

  let rec pred_double = function
  | XI p -> XI (XO p)
  | XO p -> XI (pred_double p)
  | XH -> XH

  type mask = Pos.mask =
  | IsNul
  | IsPos of positive
  | IsNeg

  (** val succ_double_mask : mask -> mask **)

  let succ_double_mask = function
  | IsNul -> IsPos XH
  | IsPos p -> IsPos (XI p)
  | IsNeg -> IsNeg

  (** val double_mask : mask -> mask **)

  let double_mask = function
  | IsPos p -> IsPos (XO p)
  | x0 -> x0

  (** val double_pred_mask : positive -> mask **)

  let double_pred_mask = function
  | XI p -> IsPos (XO (XO p))
  | XO p -> IsPos (XO (pred_double p))
  | XH -> IsNul

  (** val sub_mask : positive -> positive -> mask **)

  let rec sub_mask x y =
    match x with
    | XI p ->
      (match y with
       | XI q -> double_mask (sub_mask p q)
       | XO q -> succ_double_mask (sub_mask p q)
       | XH -> IsPos (XO p))
    | XO p ->
      (match y with
       | XI q -> succ_double_mask (sub_mask_carry p q)
       | XO q -> double_mask (sub_mask p q)
       | XH -> IsPos (pred_double p))
    | XH -> (match y with
             | XH -> IsNul
             | _ -> IsNeg)

  (** val sub_mask_carry : positive -> positive -> mask **)

  and sub_mask_carry x y =
    match x with
    | XI p ->
      (match y with
       | XI q -> succ_double_mask (sub_mask_carry p q)
       | XO q -> double_mask (sub_mask p q)
       | XH -> IsPos (pred_double p))
    | XO p ->
      (match y with
       | XI q -> double_mask (sub_mask_carry p q)
       | XO q -> succ_double_mask (sub_mask_carry p q)
       | XH -> double_pred_mask p)
    | XH -> IsNeg

  (** val mul : positive -> positive -> positive **)

  let rec mul x y =
    match x with
    | XI p -> add y (XO (mul p y))
    | XO p -> XO (mul p y)
    | XH -> y

  (** val compare_cont : comparison -> positive -> positive -> comparison **)

  let rec compare_cont r x y =
    match x with
    | XI p ->
      (match y with
       | XI q -> compare_cont r p q
       | XO q -> compare_cont Gt p q
       | XH -> Gt)
    | XO p ->
      (match y with
       | XI q -> compare_cont Lt p q
       | XO q -> compare_cont r p q
       | XH -> Gt)
    | XH -> (match y with
             | XH -> r
             | _ -> Lt)

  (** val compare : positive -> positive -> comparison **)

  let compare =
    compare_cont Eq
 end

module N =
 struct
  (** val succ_double : n -> n **)

  let succ_double = function
  | N0 -> Npos XH
  | Npos p -> Npos (XI p)

  (** val double : n -> n **)

  let double = function
  | N0 -> N0
  | Npos p -> Npos (XO p)

  (** val sub : n -> n -> n **)

  let sub n0 m =
    match n0 with
    | N0 -> N0
    | Npos n' ->
      (match m with
       | N0 -> n0
       | Npos m' ->
         (match Coq_Pos.sub_mask n' m' with
          | Coq_Pos.IsPos p -> Npos p
          | _ -> N0))

  (** val compare : n -> n -> comparison **)

  let compare n0 m =
    match n0 with
    | N0 -> (match m with
             | N0 -> Eq
             | Npos _ -> Lt)
    | Npos n' -> (match m with
                  | N0 -> Gt
                  | Npos m' -> Coq_Pos.compare n' m')

  (** val leb : n -> n -> bool **)

  let leb x y =
    match compare x y with
    | Gt -> false
    | _ -> true

  (** val pos_div_eucl : positive -> n -> n * n **)

  let rec pos_div_eucl a b =
    match a with
    | XI a' ->
      let (q, r) = pos_div_eucl a' b in
      let r' = succ_double r in
      if leb b r' then ((succ_double q), (sub r' b)) else ((double q), r')
    | XO a' ->
      let (q, r) = pos_div_eucl a' b in
      let r' = double r in
      if leb b r' then ((succ_double q), (sub r' b)) else ((double q), r')
    | XH ->
      (match b with
       | N0 -> (N0, (Npos XH))
       | Npos p -> (match p with
                    | XH -> ((Npos XH), N0)
                    | _ -> (N0, (Npos XH))))
 end

module Z =
 struct
  (** val double : z -> z **)

  let double = function
  | Z0 -> Z0
  | Zpos p -> Zpos (XO p)
  | Zneg p -> Zneg (XO p)

  (** val succ_double : z -> z **)

  let succ_double = function
  | Z0 -> Zpos XH
  | Zpos p -> Zpos (XI p)
  | Zneg p -> Zneg (Coq_Pos.pred_double p)

  (** val pred_double : z -> z **)

  let pred_double = function
  | Z0 -> Zneg XH
  | Zpos p -> Zpos (Coq_Pos.pred_double p)
  | Zneg p -> Zneg (XI p)

  (** val pos_sub : positive -> positive -> z **)

  let rec pos_sub x y =
    match x with
    | XI p ->
      (match y with
       | XI q -> double (pos_sub p q)
       | XO q -> succ_double (pos_sub p q)
       | XH -> Zpos (XO p))
    | XO p ->
      (match y with
       | XI q -> pred_double (pos_sub p q)
       | XO q -> double (pos_sub p q)
       | XH -> Zpos (Coq_Pos.pred_double p))
    | XH ->
      (match y with
       | XI q -> Zneg (XO q)
       | XO q -> Zneg (Coq_Pos.pred_double q)
       | XH -> Z0)

  (** val add : z -> z -> z **)

  let add x y =
    match x with
    | Z0 -> y
    | Zpos x' ->
      (match y with
       | Z0 -> x
       | Zpos y' -> Zpos (Coq_Pos.add x' y')
       | Zneg y' -> pos_sub x' y')
    | Zneg x' ->
      (match y with
       | Z0 -> x
       | Zpos y' -> pos_sub y' x'
       | Zneg y' -> Zneg (Coq_Pos.add x' y'))

  (** val opp : z -> z **)

  let opp = function
  | Z0 -> Z0
  | Zpos x0 -> Zneg x0
  | Zneg x0 -> Zpos x0

  (** val sub : z -> z -> z **)

  let sub m n0 =
    add m (opp n0)

  (** val mul : z -> z -> z **)

  let mul x y =
    match x with
    | Z0 -> Z0
    | Zpos x' ->
      (match y with
       | Z0 -> Z0
       | Zpos y' -> Zpos (Coq_Pos.mul x' y')
       | Zneg y' -> Zneg (Coq_Pos.mul x' y'))
    | Zneg x' ->
      (match y with
       | Z0 -> Z0
       | Zpos y' -> Zneg (Coq_Pos.mul x' y')
       | Zneg y' -> Zpos (Coq_Pos.mul x' y'))

  (** val compare : z -> z -> comparison **)

  let compare x y =
    match x with
    | Z0 -> (match y with
             | Z0 -> Eq
             | Zpos _ -> Lt
             | Zneg _ -> Gt)
    | Zpos x' -> (match y with
                  | Zpos y' -> Coq_Pos.compare x' y'
                  | _ -> Gt)
    | Zneg x' ->
      (match y with
       | Zneg y' -> compOpp (Coq_Pos.compare x' y')
       | _ -> Lt)

  (** val leb : z -> z -> bool **)

  let leb x y =
    match compare x y with
    | Gt -> false
    | _ -> true

  (** val ltb : z -> z -> bool **)

  let ltb x y =
    match compare x y with
    | Lt -> true
    | _ -> false

  (** val of_N : n -> z **)

  let of_N = function
  | N0 -> Z0
  | Npos p -> Zpos p

  (** val quotrem : z -> z -> z * z **)

  let quotrem a b =
    match a with
    | Z0 -> (Z0, Z0)
    | Zpos a0 ->
      (match b with
       | Z0 -> (Z0, a)
       | Zpos b0 ->
         let (q, r) = N.pos_div_eucl a0 (Npos b0) in ((of_N q), (of_N r))
       | Zneg b0 ->
         let (q, r) = N.pos_div_eucl a0 (Npos b0) in
         ((opp (of_N q)), (of_N r)))
    | Zneg a0 ->
      (match b with
       | Z0 -> (Z0, a)
       | Zpos b0 ->
         let (q, r) = N.pos_div_eucl a0 (Npos b0) in
         ((opp (of_N q)), (opp (of_N r)))
       | Zneg b0 ->
         let (q, r) = N.pos_div_eucl a0 (Npos b0) in
         ((of_N q), (opp (of_N r))))

  (** val quot : z -> z -> z **)

  let quot a b =
    fst (quotrem a b)
 end

(** val refresh_min_interval : z **)

let refresh_min_interval =
  Zpos (XO (XO (XO (XO (XO (XO (XO (XO (XO (XO (XO (XI (XI (XO (XI (XO (XI
    (XI (XI (XO (XO (XO (XI (XO (XO (XO (XO (XI (XI (XI (XI (XI (XI (XO (XI
    XH)))))))))))))))))))))))))))))))))))

(** val refresh_leeway : z **)

let refresh_leeway =
  Zpos (XO (XO (XO (XO (XO (XO (XO (XO (XO (XO (XO (XI (XI (XI (XO (XI (XO
    (XO (XI (XO (XO (XI (XI (XO (XI (XO (XO (XI (XI (XO (XI (XI (XI (XO (XI
    (XO (XO (XO XH))))))))))))))))))))))))))))))))))))))

type tparams = { min_interval : z; leeway : z }

type meta = { created : z; ends : z; timeout : z option; expire : z;
              refreshed : z }

(** val second : z **)

let second =
  Zpos (XO (XO (XO (XO (XO (XO (XO (XO (XO (XI (XO (XI (XO (XO (XI (XI (XO
    (XI (XO (XI (XI (XO (XO (XI (XI (XI (XO (XI (XI
    XH)))))))))))))))))))))))))))))

(** val is_ended : meta -> z -> bool **)

let is_ended m now =
  Z.ltb m.ends now

(** val is_expired : meta -> z -> bool **)

let is_expired m now =
  Z.ltb m.expire now

(** val is_timed_out : meta -> z -> bool **)

let is_timed_out m now =
  match m.timeout with
  | Some t -> Z.ltb t now
  | None -> false

(** val token_lifetime : meta -> z **)

let token_lifetime m =
  Z.sub m.expire m.refreshed

(** val cooldown_end : tparams -> meta -> z **)

let cooldown_end p m =
  if Z.leb (token_lifetime m) (Z.mul p.min_interval (Zpos (XO XH)))
  then Z.add m.refreshed (Z.quot (token_lifetime m) (Zpos (XO XH)))
  else Z.add m.refreshed p.min_interval

(** val on_cooldown : tparams -> meta -> z -> bool **)

let on_cooldown p m now =
  Z.ltb now (cooldown_end p m)

(** val next_candidate : tparams -> meta -> z **)

let next_candidate p m =
  let next = Z.sub m.expire p.leeway in
  (match m.timeout with
   | Some t ->
     let half =
       Z.add m.refreshed (Z.quot (Z.sub t m.refreshed) (Zpos (XO XH)))
     in
     if Z.ltb half next then half else next
   | None -> next)

(** val next_refresh : tparams -> meta -> z -> z **)

let next_refresh p m now =
  let next = next_candidate p m in
  if Z.ltb next now then cooldown_end p m else next

(** val should_refresh : tparams -> meta -> z -> bool **)

let should_refresh p m now =
  if is_expired m now
  then true
  else if on_cooldown p m now then false else Z.ltb (next_refresh p m now) now

(** val to_seconds : z -> z **)

let to_seconds d =
  let i = Z.quot d second in if Z.leb i Z0 then Z0 else i

type verbose = { v_ends_in : z; v_active : bool; v_timeout_in : z;
                 v_expire_in : z; v_next_refresh_in : z; v_cooldown : 
                 bool; v_cooldown_secs : z }

(** val verbose_of : tparams -> meta -> z -> verbose **)

let verbose_of p m now =
  { v_ends_in = (to_seconds (Z.sub m.ends now)); v_active =
    (negb (is_timed_out m now)); v_timeout_in =
    (match m.timeout with
     | Some t -> to_seconds (Z.sub t now)
     | None -> Zneg XH); v_expire_in = (to_seconds (Z.sub m.expire now));
    v_next_refresh_in = (to_seconds (Z.sub (next_refresh p m now) now));
    v_cooldown = (on_cooldown p m now); v_cooldown_secs =
    (to_seconds (Z.sub (cooldown_end p m) now)) }

type validity =
| Valid
| InvalidNoToken
| InvalidEnded
| InvalidInactive

(** val validate : bool -> meta -> z -> validity **)

let validate has_at m now =
  if negb has_at
  then InvalidNoToken
  else if is_ended m now
       then InvalidEnded
       else if is_timed_out m now then InvalidInactive else Valid

(** val p0 : tparams **)

let p0 =
  { min_interval = refresh_min_interval; leeway = refresh_leeway }

(** val zb : bool -> z **)

let zb = function
| true -> Zpos XH
| false -> Z0

(** val validity_code : validity -> z **)

let validity_code = function
| Valid -> Z0
| InvalidNoToken -> Zpos XH
| InvalidEnded -> Zpos (XO XH)
| InvalidInactive -> Zpos (XI XH)

(** val entry_meta : z -> meta -> z list **)

let entry_meta now m =
  let v = verbose_of p0 m now in
  (zb (is_ended m now)) :: ((zb (is_expired m now)) :: ((zb
                                                          (is_timed_out m now)) :: (
  (token_lifetime m) :: ((cooldown_end p0 m) :: ((zb (on_cooldown p0 m now)) :: (
  (next_refresh p0 m now) :: ((zb (should_refresh p0 m now)) :: (v.v_ends_in :: (
  (zb v.v_active) :: (v.v_timeout_in :: (v.v_expire_in :: (v.v_next_refresh_in :: (
  (zb v.v_cooldown) :: (v.v_cooldown_secs :: ((validity_code
                                                (validate true m now)) :: [])))))))))))))))
