(* Line-protocol driver around the extracted model (Model). Trusted for the
   correspondence check only: parses decimal integers / hex byte strings into the
   Coq datatypes, calls an entry point, prints the result. *)
open Model

let rec pos_of_int (n : int) : positive =
  if n = 1 then XH
  else if n land 1 = 0 then XO (pos_of_int (n lsr 1))
  else XI (pos_of_int (n lsr 1))

(* decimal string -> Coq Z, via repeated halving of an arbitrary-size decimal *)
let z_of_string (s : string) : z =
  let neg = String.length s > 0 && s.[0] = '-' in
  let s = if neg then String.sub s 1 (String.length s - 1) else s in
  (* values fit in 63 bits in every protocol we use *)
  let n = int_of_string s in
  if n = 0 then Z0 else if neg then Zneg (pos_of_int n) else Zpos (pos_of_int n)

let rec int_of_pos (p : positive) : int =
  match p with XH -> 1 | XO q -> 2 * int_of_pos q | XI q -> 2 * int_of_pos q + 1

let string_of_z (x : z) : string =
  match x with Z0 -> "0" | Zpos p -> string_of_int (int_of_pos p) | Zneg p -> "-" ^ string_of_int (int_of_pos p)

let n_of_int (i : int) : n = if i = 0 then N0 else Npos (pos_of_int i)
let int_of_n (x : n) : int = match x with N0 -> 0 | Npos p -> int_of_pos p

let bytes_of_hex (h : string) : n list =
  if h = "-" then [] else
  let l = String.length h / 2 in
  List.init l (fun i -> n_of_int (int_of_string ("0x" ^ String.sub h (2 * i) 2)))

let hex_of_bytes (b : n list) : string =
  if b = [] then "-" else String.concat "" (List.map (fun x -> Printf.sprintf "%02x" (int_of_n x)) b)

let zopt s = if s = "-" then None else Some (z_of_string s)

let print_zs (l : z list) = print_endline (String.concat " " (List.map string_of_z l))

let bool_of s = s = "1"
let n_of_string s = n_of_int (int_of_string s)

let parse_cookie (s : string) : cookie =
  match String.split_on_char ':' s with
  | ["-"] -> CNone
  | ["g"] -> CGarbage
  | ["nj"] -> CNonJson
  | ["k"; k; d] -> CTicket (n_of_string k, n_of_string d)
  | _ -> failwith ("cookie " ^ s)

let parse_kind (s : string) : rkind =
  match String.split_on_char ':' s with
  | ["p"] -> KProxy | ["sp"] -> KSsoProxy | ["i"] -> KInfo | ["r"] -> KRefresh | ["f"] -> KFwdAuth
  | ["lo"] -> KLogout | ["ll"] -> KLogoutLocal
  | ["fc"; "-"] -> KFront None
  | ["fc"; sid] -> KFront (Some (n_of_string sid))
  | _ -> failwith ("kind " ^ s)

let parse_fault (s : string) : fault =
  match s with "0" -> FNone | "1" -> FStore | "2" -> FIdp4xx | "3" -> FIdp5xx | "4" -> FIdpErr | _ -> failwith "fault"

let parse_event (toks : string list) : event =
  match toks with
  | ["T"; d] -> ETick (z_of_string d)
  | ["L"; sid; acr] -> ELogin (n_of_string sid, n_of_string acr)
  | ["S"; t; k; c] -> ESpawn (n_of_string t, parse_kind k, parse_cookie c)
  | ["R"; t; f] -> ERun (n_of_string t, parse_fault f)
  | ["X"; t] -> ECancel (n_of_string t)
  | ["P"; tau; rot] -> EProvider (z_of_string tau, bool_of rot)
  | _ -> failwith ("event " ^ String.concat " " toks)

(* split a token list on "|" *)
let split_bar (toks : string list) : string list list =
  let rec go acc cur = function
    | [] -> List.rev (List.rev cur :: acc)
    | "|" :: r -> go (List.rev cur :: acc) [] r
    | x :: r -> go acc (x :: cur) r in
  go [] [] toks

let handle (toks : string list) =
  match toks with
  | ["meta"; now; created; ends; timeout; expire; refreshed] ->
    let m = { created = z_of_string created; ends = z_of_string ends; timeout = zopt timeout;
              expire = z_of_string expire; refreshed = z_of_string refreshed } in
    print_zs (entry_meta (z_of_string now) m)
  | "mach" :: rest ->
    (match split_bar rest with
     | [redis; sso; fwd; inact; maxlife; acr; pacr; idtok; autologin; upd; memlock; strict; tau] :: evs ->
       let c = mk_config (bool_of redis) (bool_of sso) (bool_of fwd) (zopt inact) (z_of_string maxlife)
           (n_of_string acr) (n_of_string pacr) (bool_of idtok) (bool_of autologin) (bool_of upd) (bool_of memlock) (bool_of strict) in
       let out = entry_machine c (z_of_string tau) (List.map parse_event evs) in
       print_endline (String.concat " | " (List.map (fun l -> String.concat " " (List.map string_of_z l)) out))
     | _ -> print_endline "?bad mach line")
  | _ -> print_endline ("?unknown " ^ String.concat " " toks)

let () =
  try
    while true do
      let line = input_line stdin in
      if line <> "" then handle (String.split_on_char ' ' line)
    done
  with End_of_file -> ()
