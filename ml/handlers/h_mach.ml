open Model
open Common

let bool_of s = s = "1"
let n_of_string s = n_of_int (int_of_string s)

let parse_cookie (s : string) : cookie =
  match String.split_on_char ':' s with
  | ["-"] -> CNone
  | ["g"] -> CGarbage
  | ["nj"] -> CNonJson
  | ["k"; k; d] -> CTicket (n_of_string k, n_of_string d)
  | _ -> failwith ("cookie " ^ s)

let parse_kind (s : string) : rkind =
  match String.split_on_char ':' s with
  | ["p"] -> KProxy | ["sp"] -> KSsoProxy | ["i"] -> KInfo | ["r"] -> KRefresh | ["f"] -> KFwdAuth
  | ["lo"] -> KLogout | ["ll"] -> KLogoutLocal
  | ["fc"; "-"] -> KFront None
  | ["fc"; sid] -> KFront (Some (n_of_string sid))
  | _ -> failwith ("kind " ^ s)

let parse_fault (s : string) : fault =
  match s with "0" -> FNone | "1" -> FStore | "2" -> FIdp4xx | "3" -> FIdp5xx | "4" -> FIdpErr | "5" -> FIdp4xx (* 4xx with a non-JSON body: every 4xx is a rejection *) | _ -> failwith "fault"

let parse_event (toks : string list) : event =
  match toks with
  | ["T"; d] -> ETick (z_of_string d)
  | ["L"; sid; acr] -> ELogin (n_of_string sid, n_of_string acr)
  | ["S"; t; k; c] -> ESpawn (n_of_string t, parse_kind k, parse_cookie c)
  | ["R"; t; f] -> ERun (n_of_string t, parse_fault f)
  | ["X"; t] -> ECancel (n_of_string t)
  | ["P"; tau; rot] -> EProvider (z_of_string tau, bool_of rot)
  | _ -> failwith ("event " ^ String.concat " " toks)

let () = register "mach" (fun rest ->
    match split_bar rest with
     | [redis; sso; fwd; inact; maxlife; acr; pacr; idtok; autologin; upd; memlock; strict; tau] :: evs ->
       let c = mk_config (bool_of redis) (bool_of sso) (bool_of fwd) (zopt inact) (z_of_string maxlife)
           (n_of_string acr) (n_of_string pacr) (bool_of idtok) (bool_of autologin) (bool_of upd) (bool_of memlock) (bool_of strict) in
       let out = entry_machine c (z_of_string tau) (List.map parse_event evs) in
       print_endline (String.concat " | " (List.map (fun l -> String.concat " " (List.map string_of_z l)) out))
     | _ -> print_endline "?bad mach line")
