(* C15: router / request classification / html escaping entry points *)
open Model
open Common

let blist (tok : string) : n list list =
  if tok = "." then [] else List.map bytes_of_hex (String.split_on_char ',' tok)

(* configured ingresses: "<hex scheme://host>/<hex URL.Path>" joined by ',' *)
let ilist (tok : string) : (n list * n list) list =
  if tok = "." then [] else
  List.map (fun x -> match String.split_on_char '/' x with
                     | [o; p] -> (bytes_of_hex o, bytes_of_hex p)
                     | _ -> failwith "bad ingress token") (String.split_on_char ',' tok)

let print_ns (l : n list) = print_endline (String.concat " " (List.map (fun x -> string_of_int (int_of_n x)) l))

let () = register "rtroute" (fun toks ->
  match toks with
  | [mode; idp; prefixes; meth; raw; path; hmode; hdest; accepts; acrm] ->
    print_ns (entry_rt_route (n_of_int (int_of_string mode)) (n_of_int (int_of_string idp)) (ilist prefixes)
                (bytes_of_hex meth) (bytes_of_hex raw) (bytes_of_hex path) (bytes_of_hex hmode) (bytes_of_hex hdest)
                (blist accepts) (bytes_of_hex acrm))
  | _ -> print_endline "?bad route line")

let () = register "reqclass" (fun toks ->
  match toks with
  | [meth; hmode; hdest; accepts] ->
    print_ns (entry_reqclass (bytes_of_hex meth) (bytes_of_hex hmode) (bytes_of_hex hdest) (blist accepts))
  | _ -> print_endline "?bad reqclass line")

let () = register "pct" (fun toks ->
  match toks with
  | [s] -> (match entry_pct_decode (bytes_of_hex s) with
            | Some b -> print_endline ("1 " ^ hex_of_bytes b)
            | None -> print_endline "0")
  | _ -> print_endline "?bad pct line")

let () = register "setpath" (fun toks ->
  match toks with
  | [s] -> (match entry_set_path (bytes_of_hex s) with
            | Some (a, b) -> print_endline ("1 " ^ hex_of_bytes a ^ " " ^ hex_of_bytes b)
            | None -> print_endline "0")
  | _ -> print_endline "?bad setpath line")

let () = register "rtarget" (fun toks ->
  match toks with
  | [mode; idp; prefixes; meth; p; hmode; hdest; accepts; acrm] ->
    print_ns (entry_route_target (n_of_int (int_of_string mode)) (n_of_int (int_of_string idp)) (ilist prefixes)
                (bytes_of_hex meth) (bytes_of_hex p) (bytes_of_hex hmode) (bytes_of_hex hdest)
                (blist accepts) (bytes_of_hex acrm))
  | _ -> print_endline "?bad rtarget line")

let () = register "rtable" (fun toks ->
  match toks with
  | [mode; idp; prefixes; base] ->
    let rows = entry_route_table (n_of_int (int_of_string mode)) (n_of_int (int_of_string idp)) (ilist prefixes)
                 (n_of_int (int_of_string base)) in
    let strs = List.map (fun ((m, p), k) -> Printf.sprintf "%d/%s/%d" (int_of_n m) (hex_of_bytes p) (int_of_n k)) rows in
    print_endline (String.concat " " (List.sort compare strs))
  | _ -> print_endline "?bad rtable line")

let () = register "etext" (fun toks ->
  match toks with [s] -> print_bytes (entry_render_text (bytes_of_hex s)) | _ -> print_endline "?bad etext line")
let () = register "ehref" (fun toks ->
  match toks with [s] -> print_bytes (entry_render_href (bytes_of_hex s)) | _ -> print_endline "?bad ehref line")
let () = register "ufilter" (fun toks ->
  match toks with [s] -> print_bytes (entry_url_filter (bytes_of_hex s)) | _ -> print_endline "?bad ufilter line")

let () = register "rtingress" (fun toks ->
  match toks with
  | [ings] ->
    let ps = List.sort compare (List.map hex_of_bytes (entry_ingress_paths (ilist ings))) in
    print_endline (String.concat " " ("K" :: ps))
  | _ -> print_endline "?bad rtingress line")
