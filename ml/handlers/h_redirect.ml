(* C04: redirect model entry points. Every line: kind, then hex byte-string tokens ("-" = empty);
   output: the entry's fields as hex tokens separated by one space. *)
open Model
open Common

let print_fields (l : n list list) = print_endline (String.concat " " (List.map hex_of_bytes l))
let h = bytes_of_hex
let bad k = print_endline ("?bad " ^ k ^ " line")

let () = register "r.vap" (fun toks ->
  match toks with [s] -> print_fields (entry_vap (h s)) | _ -> bad "r.vap")
let () = register "r.parse" (fun toks ->
  match toks with [via; s] -> print_fields (entry_parse (via = "1") (h s)) | _ -> bad "r.parse")
let () = register "r.relclean" (fun toks ->
  match toks with [ip; rp; t] -> print_fields (entry_relclean (h ip) (h rp) (h t)) | _ -> bad "r.relclean")
let () = register "r.standalone" (fun toks ->
  match toks with [ip; rp; p] -> print_fields (entry_standalone (h ip) (h rp) (h p)) | _ -> bad "r.standalone")
let () = register "r.absvalid" (fun toks ->
  match toks with [d; t] -> print_fields (entry_absvalid (h d) (h t)) | _ -> bad "r.absvalid")
let () = register "r.ssoserver" (fun toks ->
  match toks with [d; fb; rp; p] -> print_fields (entry_ssoserver (h d) (h fb) (h rp) (h p)) | _ -> bad "r.ssoserver")
let () = register "r.ssoproxy" (fun toks ->
  match toks with [ing; rp; p] -> print_fields (entry_ssoproxy (h ing) (h rp) (h p)) | _ -> bad "r.ssoproxy")
let () = register "r.httpredirect" (fun toks ->
  match toks with [rp; t] -> print_fields (entry_httpredirect (h rp) (h t)) | _ -> bad "r.httpredirect")
let () = register "r.whatwg" (fun toks ->
  match toks with
  | [bs; bh; bp; i] -> print_fields (entry_whatwg (h bs) (h bh) (n_of_int (int_of_string bp)) (h i))
  | _ -> bad "r.whatwg")
let () = register "r.spxhandler" (fun toks ->
  match toks with
  | [ings; fb; srv; rh; rp; lo; p] ->
    let il = List.map h (String.split_on_char ',' ings) in
    print_fields (entry_spxhandler il (h fb) (h srv) (h rh) (h rp) (lo = "1") (h p))
  | _ -> bad "r.spxhandler")
