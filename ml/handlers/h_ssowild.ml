(* C16, clause 3 ("never proxies to an upstream"): glue for Model/EntrySsoWild.v.
   sswild <mode> <ingresses> <default-url> <method> <raw> <path> <sec-fetch-mode> <sec-fetch-dest> <accepts> <session>
   The last token (does the request carry a valid session cookie) is not handed to the model: the answer does not depend on it. *)
open Model
open Common

let sw_blist (tok : string) : n list list =
  if tok = "." then [] else List.map bytes_of_hex (String.split_on_char ',' tok)

let sw_ilist (tok : string) : (n list * n list) list =
  if tok = "." then [] else
  List.map (fun x -> match String.split_on_char '/' x with
                     | [o; p] -> (bytes_of_hex o, bytes_of_hex p)
                     | _ -> failwith "bad ingress token") (String.split_on_char ',' tok)

let () = register "sswild" (fun toks ->
  match toks with
  | [mode; ings; url; meth; raw; path; hmode; hdest; accepts; _session] ->
    let (((k, st), loc), hits) =
      entry_sso_wild (n_of_int (int_of_string mode)) (sw_ilist ings) (bytes_of_hex url) (bytes_of_hex meth) (bytes_of_hex raw)
        (bytes_of_hex path) (bytes_of_hex hmode) (bytes_of_hex hdest) (sw_blist accepts) in
    Printf.printf "%d %d %s %d\n" (int_of_n k) (int_of_n st) (hex_of_bytes loc) (int_of_n hits)
  | _ -> print_endline "?bad sswild line")
