open Model
open Common

(* header token: "~" absent; otherwise comma-separated values, each lowercase hex or "-" for the empty string *)
let hdr_of_tok (t : string) : n list list =
  if t = "~" then [] else List.map bytes_of_hex (String.split_on_char ',' t)

let () = register "cors" (fun toks ->
  match toks with
  | [dom; pfx; rp; meth; origin; acrm; acrh] ->
    print_zs (entry_cors (bytes_of_hex dom) (bytes_of_hex pfx) (bytes_of_hex rp) (bytes_of_hex meth)
                (hdr_of_tok origin) (hdr_of_tok acrm) (hdr_of_tok acrh))
  | _ -> print_endline "?bad cors line")
