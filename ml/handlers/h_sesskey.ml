(* session identity: ExternalID decision, store key, lock key (Model/SessionKey.v; `wwh sesskey`) *)
open Common
open Model

let () = register "extid" (fun toks ->
  match toks with
  | [has_sid; sid; sidreq; ss; ssreq] ->
    let (k, id) = entry_external_id (has_sid = "1") (bytes_of_hex sid) (sidreq = "1") (bytes_of_hex ss) (ssreq = "1") in
    Printf.printf "%d %s\n" (int_of_n k) (hex_of_bytes id)
  | _ -> print_endline "?bad extid line")

let () = register "skey" (fun toks ->
  match toks with
  | [p; c; e] ->
    Printf.printf "%s %s\n" (hex_of_bytes (entry_store_key (bytes_of_hex p) (bytes_of_hex c) (bytes_of_hex e)))
      (hex_of_bytes (entry_lock_key (bytes_of_hex p) (bytes_of_hex c) (bytes_of_hex e)))
  | _ -> print_endline "?bad skey line")
