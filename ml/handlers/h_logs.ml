(* Model/Logs.v. Line: banner <urimasked01> <b0> <b1> <b2> <b3> <b4>  ->  codes of the secrets that appear in the banner ("-" if none) *)
open Model
open Common

let () = register "banner" (fun toks ->
    match toks with
    | m :: bits when List.length bits = 5 ->
      let l = entry_banner (m = "1") (List.map (fun b -> b = "1") bits) in
      print_endline (if l = [] then "-" else String.concat " " (List.map (fun x -> string_of_int (int_of_n x)) l))
    | _ -> print_endline "?bad banner line")

(* Line: banneruri <urimasked01> <redis.uri as hex>  ->  the redis.uri field of the banner, as hex ("-" if empty) *)
let () = register "banneruri" (fun toks ->
    match toks with
    | [m; uri] -> print_bytes (entry_banner_uri (m = "1") (bytes_of_hex uri))
    | _ -> print_endline "?bad banneruri line")
