(* Model/Auth.v: login / logout / callback. Token syntax:
   sval:  r<n> atom | h<n> S256 of atom | x secret | a<n> assertion | s<hex> public string ("s-" = empty) | c<hex>~<sval> prefix++value
   cfg:   key ; scheme,host,path;... ; client_id issuer acrdef sup,sup locdef sup,sup scope resource par secret isssup strict *)
open Model
open Common

let rec parse_sval (t : string) : sval =
  let rest = String.sub t 1 (String.length t - 1) in
  match t.[0] with
  | 'r' -> VRnd (n_of_int (int_of_string rest))
  | 'h' -> VS256 (n_of_int (int_of_string rest))
  | 'x' -> VSecret
  | 'a' -> VAssert (n_of_int (int_of_string rest))
  | 's' -> VStr (bytes_of_hex rest)
  | 'c' -> (match String.index_opt rest '~' with
            | Some i -> VCat (bytes_of_hex (String.sub rest 0 i), parse_sval (String.sub rest (i + 1) (String.length rest - i - 1)))
            | None -> failwith "sval cat")
  | _ -> failwith ("sval " ^ t)

let rec show_sval (v : sval) : string =
  match v with
  | VStr b -> "s" ^ hex_of_bytes b
  | VRnd n -> "r" ^ string_of_int (int_of_n n)
  | VS256 n -> "h" ^ string_of_int (int_of_n n)
  | VCat (p, x) -> "c" ^ hex_of_bytes p ^ "~" ^ show_sval x
  | VSecret -> "x"
  | VAssert n -> "a"

let pname_str (p : pname) : string =
  match p with
  | PClientId -> "client_id" | PCodeChallenge -> "code_challenge" | PCodeChallengeMethod -> "code_challenge_method"
  | PNonce -> "nonce" | PRedirectUri -> "redirect_uri" | PResponseMode -> "response_mode" | PResponseType -> "response_type"
  | PScope -> "scope" | PState -> "state" | PAcrValues -> "acr_values" | PUiLocales -> "ui_locales" | PPrompt -> "prompt"
  | PMaxAge -> "max_age" | PResource -> "resource" | PRequestUri -> "request_uri" | PClientSecret -> "client_secret"
  | PClientAssertion -> "client_assertion" | PClientAssertionType -> "client_assertion_type" | PCode -> "code"
  | PCodeVerifier -> "code_verifier" | PGrantType -> "grant_type"

let fname_str (f : fname) : string =
  match f with
  | FState -> "state" | FNonce -> "nonce" | FVerifier -> "code_verifier" | FRedirectURI -> "redirect_uri"
  | FReferer -> "referer" | FAcr -> "acr" | FRedirectTo -> "redirect_to" | FId -> "id" | FDek -> "dek"

let fname_of (s : string) : fname =
  match s with
  | "state" -> FState | "nonce" -> FNonce | "code_verifier" -> FVerifier | "redirect_uri" -> FRedirectURI
  | "referer" -> FReferer | "acr" -> FAcr | "redirect_to" -> FRedirectTo | "id" -> FId | "dek" -> FDek
  | _ -> failwith ("fname " ^ s)

let show_params (p : (pname * sval) list) : string =
  let l = List.map (fun (k, v) -> pname_str k ^ "=" ^ show_sval v) p in
  if l = [] then "-" else String.concat "," (List.sort compare l)

let show_fields (f : (fname * sval) list) : string =
  let l = List.map (fun (k, v) -> fname_str k ^ "=" ^ show_sval v) f in
  if l = [] then "-" else String.concat "," (List.sort compare l)

let show_cookie (c : cterm option) : string =
  match c with
  | None -> "none"
  | Some CkNone -> "none" | Some CkGarbage -> "garbage" | Some (CkNonJson _) -> "nonjson"
  | Some (CkEnc (k, f)) -> "enc:" ^ string_of_int (int_of_n k) ^ ":" ^ show_fields f

let show_bop (b : bop) : string =
  match b with BPar p -> "par[" ^ show_params p ^ "]" | BToken p -> "token[" ^ show_params p ^ "]"

let show_back (l : bop list) : string = if l = [] then "-" else String.concat "+" (List.map show_bop l)

let split_on c s = if s = "-" || s = "" then [] else String.split_on_char c s

let parse_ingress (s : string) : ingress =
  match String.split_on_char ',' s with
  | [a; b; c] -> { i_scheme = bytes_of_hex a; i_host = bytes_of_hex b; i_path = bytes_of_hex c }
  | _ -> failwith ("ingress " ^ s)

let parse_cfg (toks : string list) : acfg =
  match toks with
  | [key; ings; cid; iss; acrdef; acrsup; locdef; locsup; scope; resource; par; secret; isssup; strict; seg] ->
    mk_acfg (n_of_int (int_of_string key)) (List.map parse_ingress (split_on ';' ings)) (bytes_of_hex cid) (bytes_of_hex iss)
      (bytes_of_hex acrdef) (List.map bytes_of_hex (split_on ',' acrsup)) (bytes_of_hex locdef)
      (List.map bytes_of_hex (split_on ',' locsup)) (bytes_of_hex scope) (bytes_of_hex resource)
      (par = "1") (secret = "1") (isssup = "1") (strict = "1") (seg = "1")
  | _ -> failwith "acfg"

let parse_cookie (s : string) : cterm =
  match String.split_on_char ':' s with
  | ["none"] -> CkNone
  | ["garbage"] -> CkGarbage
  | ["nonjson"; k] -> CkNonJson (n_of_int (int_of_string k))
  | ["enc"; k; f] ->
    CkEnc (n_of_int (int_of_string k),
           List.map (fun kv -> match String.index_opt kv '=' with
               | Some i -> (fname_of (String.sub kv 0 i), parse_sval (String.sub kv (i + 1) (String.length kv - i - 1)))
               | None -> failwith "field") (split_on ',' f))
  | _ -> failwith ("cookie " ^ s)

(* behaviour of the PAR endpoint during one login: comma separated answers to the successive attempts, "-" = none;
   k:<sval> healthy answer with that request_uri | e 5xx | c 4xx | m undecodable 2xx | t no answer until the client's timeout | u unreachable *)
let parse_reply (t : string) : par_reply =
  if String.length t > 2 && String.sub t 0 2 = "k:" then ParOk (parse_sval (String.sub t 2 (String.length t - 2)))
  else match t with
    | "e" -> ParServerError | "c" -> ParClientError | "m" -> ParMalformed | "t" -> ParTimeout | "u" -> ParUnreachable
    | _ -> failwith ("par reply " ^ t)

let () = register "alogin" (fun toks ->
    match split_bar toks with
    | [cfg; [host; xfh; path; level; locale; prompt]; [rnd; referer; replies]] ->
      let c = parse_cfg cfg in
      let q = { r_host = bytes_of_hex host; r_xfh = bytes_of_hex xfh; r_path = bytes_of_hex path;
                r_level = bytes_of_hex level; r_locale = bytes_of_hex locale; r_prompt = bytes_of_hex prompt } in
      let outs = entry_login c q (n_of_int (int_of_string rnd)) (parse_sval referer) (List.map parse_reply (split_on ',' replies)) in
      print_endline (String.concat " || " (List.map (fun o ->
          (* the generator counter after a failed login is not observable from outside *)
          Printf.sprintf "ok=%s browser=%s back=%s cookie=%s rnd=%s" (zb o.lo_ok) (show_params o.lo_browser) (show_back o.lo_back)
            (show_cookie o.lo_cookie) (if o.lo_ok then string_of_int (int_of_n o.lo_rnd) else "-")) outs))
    | _ -> print_endline "?bad alogin line")

let () = register "alogout" (fun toks ->
    match split_bar toks with
    | [cfg; [host; xfh; path]; [rnd; redirect_to]] ->
      let c = parse_cfg cfg in
      let q = { r_host = bytes_of_hex host; r_xfh = bytes_of_hex xfh; r_path = bytes_of_hex path; r_level = []; r_locale = []; r_prompt = [] } in
      let outs = entry_logout c q (n_of_int (int_of_string rnd)) (parse_sval redirect_to) in
      print_endline (String.concat " || " (List.map (fun o ->
          Printf.sprintf "ok=%s plr=%s state=%s cookie=%s rnd=%d" (zb o.go_ok) (hex_of_bytes o.go_post_logout_redirect_uri)
            (show_sval o.go_state) (show_cookie o.go_cookie) (int_of_n o.go_rnd)) outs))
    | _ -> print_endline "?bad alogout line")

(* store terms: "-" (empty) or k:v,k:v (key id : value id); printed sorted by key *)
let parse_astore (s : string) : (n * n) list =
  List.map (fun kv -> match String.split_on_char ':' kv with
      | [k; v] -> (n_of_int (int_of_string k), n_of_int (int_of_string v))
      | _ -> failwith ("store entry " ^ kv)) (split_on ',' s)

let show_astore (s : (n * n) list) : string =
  let l = List.sort compare (List.map (fun (k, v) -> (int_of_n k, int_of_n v)) s) in
  if l = [] then "-" else String.concat "," (List.map (fun (k, v) -> Printf.sprintf "%d:%d" k v) l)

let () = register "acallback" (fun toks ->
    match split_bar toks with
    | [cfg; [state; code; iss; err; cookie]; [tokok; jti]; [store; newk]] ->
      (* with the store: <entries before> <key id of the session the provider's answer would create>; a new value prints as 0 *)
      let c = parse_cfg cfg in
      let r = { cb_state = parse_sval state; cb_code = parse_sval code; cb_iss = parse_sval iss; cb_error = parse_sval err;
                cb_cookie = parse_cookie cookie } in
      let o = entry_callback c (tokok = "1") (n_of_int (int_of_string jti)) r in
      let st = entry_callback_store c (tokok = "1") (n_of_int (int_of_string jti)) r (n_of_int (int_of_string newk)) (parse_astore store) in
      Printf.printf "status=%d back=%s session=%s clears=%s store=%s\n" (int_of_n o.co_status) (show_back o.co_back) (zb o.co_session)
        (zb o.co_clears_login) (show_astore st)
    | [cfg; [state; code; iss; err; cookie]; [tokok; jti]] ->
      let c = parse_cfg cfg in
      let r = { cb_state = parse_sval state; cb_code = parse_sval code; cb_iss = parse_sval iss; cb_error = parse_sval err;
                cb_cookie = parse_cookie cookie } in
      let o = entry_callback c (tokok = "1") (n_of_int (int_of_string jti)) r in
      Printf.printf "status=%d back=%s session=%s clears=%s\n" (int_of_n o.co_status) (show_back o.co_back) (zb o.co_session) (zb o.co_clears_login)
    | _ -> print_endline "?bad acallback line")

(* client assertions of n back-channel requests (overlapping or not), in the order they reached the provider:
   abackjti <cfg> | <n>   prints the jti draws, numbered from 1 ("0" where the request carries the client secret instead) *)
let () = register "abackjti" (fun toks ->
    match split_bar toks with
    | [cfg; [n]] ->
      let c = parse_cfg cfg in
      print_endline (String.concat " " (List.map (fun j -> string_of_int (int_of_n j)) (entry_backchannel_jtis c (n_of_int (int_of_string n)))))
    | _ -> print_endline "?bad abackjti line")

(* histories of one process (Model/Auth.v hist_step; threading the counter over the lines is hist_run):
   ahist0                                 resets the counter to 0 (start of a process)
   ahist <cfg> | login <host> <xfh> <path> <level> <locale> <prompt> <referer> <replies>
   ahist <cfg> | callback <state> <code> <iss> <error> <cookie> <tokens_ok> <provider_sid>
   ahist <cfg> | logout <host> <xfh> <path> <redirect_to>
   ahist <cfg> | logoutcb | frontchannel | logoutlocal
   prints  ok=<0|1> draws=<kind>:r<n>,... rnd=<counter afterwards>   ("draws=hidden": drawn, but handed to nobody) *)
let ahist_counter : n ref = ref N0

let dkind_str (k : dkind) : string =
  match int_of_n (dkind_code k) with
  | 0 -> "nonce" | 1 -> "state" | 2 -> "verifier" | 3 -> "logout_state" | 4 -> "session_id" | 5 -> "data_key" | _ -> "?"

let () = register "ahist0" (fun _ -> ahist_counter := N0; print_endline "rnd=0")

let () = register "ahist" (fun toks ->
    match split_bar toks with
    | [cfg; opt] ->
      let c = parse_cfg cfg in
      let areq_of host xfh path level locale prompt =
        { r_host = bytes_of_hex host; r_xfh = bytes_of_hex xfh; r_path = bytes_of_hex path;
          r_level = bytes_of_hex level; r_locale = bytes_of_hex locale; r_prompt = bytes_of_hex prompt } in
      let op = match opt with
        | ["login"; host; xfh; path; level; locale; prompt; referer; replies] ->
          Some (HLogin (areq_of host xfh path level locale prompt, parse_sval referer, List.map parse_reply (split_on ',' replies)))
        | ["callback"; state; code; iss; err; cookie; tokok; provsid] ->
          Some (HCallback ({ cb_state = parse_sval state; cb_code = parse_sval code; cb_iss = parse_sval iss; cb_error = parse_sval err;
                             cb_cookie = parse_cookie cookie }, tokok = "1", provsid = "1"))
        | ["logout"; host; xfh; path; redirect_to] -> Some (HLogout (areq_of host xfh path "-" "-" "-", parse_sval redirect_to))
        | ["logoutcb"] -> Some HLogoutCallback
        | ["frontchannel"] -> Some HLogoutFrontChannel
        | ["logoutlocal"] -> Some HLogoutLocal
        | _ -> None in
      (match op with
       | None -> print_endline "?bad ahist operation"
       | Some op ->
         let o = entry_hist_step c op !ahist_counter in
         ahist_counter := o.hs_rnd;
         let draws =
           if not o.hs_visible then "hidden"
           else if o.hs_draws = [] then "-"
           else String.concat "," (List.map (fun (k, a) -> dkind_str k ^ ":r" ^ string_of_int (int_of_n a)) o.hs_draws) in
         Printf.printf "ok=%s draws=%s rnd=%d\n" (zb o.hs_ok) draws (int_of_n o.hs_rnd))
    | _ -> print_endline "?bad ahist line")
