(* C12: glob matcher, path.Clean, autologin.New/NeedsLogin, wildcard handler decision *)
open Model
open Common

let b01 s = (s = "1")

(* take k hex tokens *)
let rec take k l = if k = 0 then ([], l) else
  match l with x :: r -> let (a, b) = take (k - 1) r in (x :: a, b) | [] -> failwith "short line"

let counted l = match l with
  | k :: r -> let (a, b) = take (int_of_string k) r in (List.map bytes_of_hex a, b)
  | [] -> failwith "short line"

let hexlist l = if l = [] then "~" else String.concat "," (List.map hex_of_bytes l)

let () = register "glob" (fun toks ->
  match toks with
  | [pat; name] -> print_endline (string_of_int (int_of_n (entry_glob (bytes_of_hex pat) (bytes_of_hex name))))
  | _ -> print_endline "?bad glob line")

let () = register "clean" (fun toks ->
  match toks with
  | [p] -> print_bytes (entry_clean (bytes_of_hex p))
  | _ -> print_endline "?bad clean line")

let () = register "needs" (fun toks ->
  match toks with
  | clean :: enabled :: rest ->
    let (pats, rest) = counted rest in
    (match rest with
     | k :: r ->
       let rec reqs k r = if k = 0 then [] else
         (match r with a :: p :: r' -> (b01 a, bytes_of_hex p) :: reqs (k - 1) r' | _ -> failwith "short line") in
       let (ps, ds) = entry_needs (b01 clean) (b01 enabled) pats (reqs (int_of_string k) r) in
       print_endline (hexlist ps ^ " " ^ (if ds = [] then "~" else String.concat "" (List.map zb ds)))
     | [] -> print_endline "?bad needs line")
  | _ -> print_endline "?bad needs line")

let () = register "route" (fun toks ->
  match toks with
  | clean :: rest ->
    let (pats, rest) = counted rest in
    let (ings, rest) = counted rest in
    (match rest with
     | meth :: mode :: dest :: rest ->
       let (accs, rest) = counted rest in
       (match rest with
        | [referer; urlstring; path] ->
          let r = { rq_method = bytes_of_hex meth; rq_mode = bytes_of_hex mode; rq_dest = bytes_of_hex dest;
                    rq_accept = accs; rq_referer = bytes_of_hex referer; rq_url_string = bytes_of_hex urlstring;
                    rq_path = bytes_of_hex path } in
          (match entry_route ((int_of_string clean) land 1 = 1) ((int_of_string clean) lsr 1 = 1) pats ings r with
           | Forward -> print_endline ("F " ^ urlstring)
           | Redirect302 loc -> print_endline ("302 " ^ hex_of_bytes loc)
           | Unauthorized401 (loc, json) -> print_endline ("401 " ^ hex_of_bytes loc ^ " " ^ zb json))
        | _ -> print_endline "?bad route line")
     | _ -> print_endline "?bad route line")
  | _ -> print_endline "?bad route line")
