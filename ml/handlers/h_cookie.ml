(* Glue for Model/EntryCookie.v: parse tokens, call the extracted entry, print its tokens. *)
open Model
open Common

let print_toks (l : n list list) =
  print_endline (String.concat " " (List.map (fun t -> String.concat "" (List.map (fun c -> String.make 1 (Char.chr (int_of_n c))) t)) l))

let b01 s = (s = "1")
(* comma separated list of hex strings; "~" is the empty list *)
let blist s = if s = "~" then [] else List.map bytes_of_hex (String.split_on_char ',' s)
let bopt s = if s = "~" then None else Some (bytes_of_hex s)

(* 13 tokens: secure samesite prefix ingresses sso domain name legacy rl logins window seg_prefix rl_ceil *)
let config_of = function
  | [sec; ss; pre; ing; sso; dom; nm; leg; rl; logins; win; seg; ceil] ->
    ck_config (b01 sec) (bytes_of_hex ss) (bytes_of_hex pre) (blist ing) (b01 sso) (bytes_of_hex dom) (bytes_of_hex nm)
      (b01 leg) (b01 rl) (z_of_string logins) (z_of_string win) (b01 seg) (b01 ceil)
  | _ -> failwith "config"

let rec take n l = if n = 0 then [] else match l with x :: r -> x :: take (n - 1) r | [] -> failwith "take"
let rec drop n l = if n = 0 then l else match l with _ :: r -> drop (n - 1) r | [] -> failwith "drop"

let ep_of = function
  | "L" -> EpLogin | "C" -> EpCallback | "O" -> EpLogout | "K" -> EpLogoutLocal | "B" -> EpLogoutCallback
  | "F" -> EpFrontChannel | _ -> failwith "endpoint"

(* e<status>[.<cause>]: the cause (why the request fails; arranged by the driver on the real stack) is handed to the model,
   whose handlers see the status alone (Model/Retry.v fault_of_cause) *)
let cause_of = function
  | "" -> FcUnspecified | "5" -> FcProvider5xx | "m" -> FcProviderMalformed | "t" -> FcProviderTimeout | "r" -> FcProviderRefused
  | "x" -> FcClientCanceled | "s" -> FcStore | "st" -> FcStoreTimeout | "sc" -> FcStoreCanceled
  | c -> failwith ("cause " ^ c)

let fault_of s =
  if s = "n" then CFNone else if s = "s" then CFSoft
  else if String.length s > 1 && s.[0] = 'e' then
    let body = String.sub s 1 (String.length s - 1) in
    (match String.index_opt body '.' with
     | None -> ck_fault (z_of_string body) FcUnspecified
     | Some i -> ck_fault (z_of_string (String.sub body 0 i)) (cause_of (String.sub body (i + 1) (String.length body - i - 1))))
  else failwith "fault"

let rec origins n toks =
  if n = 0 then ([], toks) else
  match toks with
  | h :: host :: path :: r -> let (l, r') = origins (n - 1) r in (ck_origin (b01 h) (bytes_of_hex host) (bytes_of_hex path) :: l, r')
  | _ -> failwith "origins"

let rec items toks =
  match toks with
  | [] -> []
  | "R" :: dt :: ep :: path :: f :: prompt :: r ->
    IReq (z_of_string dt, ck_breq (ep_of ep) (bytes_of_hex path) (b01 prompt), fault_of f) :: items r
  | "W" :: via :: ep :: path :: fs :: r ->
    let fl = if fs = "~" then [] else List.map fault_of (String.split_on_char ',' fs) in
    IFollow (b01 via, ck_breq (ep_of ep) (bytes_of_hex path) false, fl) :: items r
  | _ -> failwith "items"

(* items of a script that also talks to the SSO proxy: "P" = request to the proxy's origin *)
let rec pitems toks =
  match toks with
  | [] -> []
  | "P" :: dt :: ep :: path :: f :: prompt :: r ->
    ck_proxy_req (z_of_string dt) (ck_breq (ep_of ep) (bytes_of_hex path) (b01 prompt)) (fault_of f) :: pitems r
  | "R" :: a :: b :: c :: d :: e :: r -> (match items ["R"; a; b; c; d; e] with [it] -> ck_pitem it :: pitems r | _ -> failwith "pitems")
  | "W" :: a :: b :: c :: d :: r -> (match items ["W"; a; b; c; d] with [it] -> ck_pitem it :: pitems r | _ -> failwith "pitems")
  | _ -> failwith "pitems"

let value_of s = if s = "*" then VOpaque else VLit (bytes_of_hex s)

let rec jops toks =
  match toks with
  | [] -> []
  | "S" :: now :: h :: host :: path :: name :: v :: dom :: cpath :: sec :: maxage :: epoch :: r ->
    JSet (z_of_string now, ck_origin (b01 h) (bytes_of_hex host) (bytes_of_hex path),
          ck_setcookie (bytes_of_hex name) (value_of v) (bytes_of_hex dom) (bytes_of_hex cpath) (b01 sec) (z_of_string maxage) (b01 epoch)) :: jops r
  | "P" :: now :: h :: host :: path :: r ->
    JProbe (z_of_string now, ck_origin (b01 h) (bytes_of_hex host) (bytes_of_hex path)) :: jops r
  | _ -> failwith "jops"

let () =
  register "curl" (fun toks -> match toks with [raw] -> print_toks (entry_url (bytes_of_hex raw)) | _ -> print_endline "?bad");
  register "cval" (fun toks -> print_toks (entry_validate (config_of toks)));
  register "cnames" (fun toks -> print_toks (entry_cookie_names (config_of toks)));
  register "cmatch" (fun toks -> print_toks (entry_match (config_of (take 13 toks)) (bytes_of_hex (List.nth toks 13))));
  register "cret" (fun toks -> match toks with [rc; st] -> print_toks (entry_retry (bopt rc) (z_of_string st)) | _ -> print_endline "?bad");
  register "cscript" (fun toks ->
    let c = config_of (take 13 toks) in
    match drop 13 toks with
    | https :: host :: hostport :: now0 :: np :: r ->
      let (probes, r') = origins (int_of_string np) r in
      print_toks (entry_script c (b01 https) (bytes_of_hex host) (bytes_of_hex hostport) (z_of_string now0) probes (items r'))
    | _ -> print_endline "?bad");
  register "cpscript" (fun toks ->
    let c = config_of (take 13 toks) in
    match drop 13 toks with
    | https :: host :: hostport :: now0 :: phttps :: phost :: phostport :: pings :: np :: r ->
      let (probes, r') = origins (int_of_string np) r in
      print_toks (entry_script_px c (b01 https) (bytes_of_hex host) (bytes_of_hex hostport) (z_of_string now0)
                    (b01 phttps) (bytes_of_hex phost) (bytes_of_hex phostport) (blist pings) probes (pitems r'))
    | _ -> print_endline "?bad");
  register "cjar" (fun toks -> print_toks (entry_jar (jops toks)));
  register "ccnt" (fun toks ->
    let ev s = if s = "c" then EvClear else if s = "o" then EvOther
      else EvFail (z_of_string (String.sub s 1 (String.length s - 1))) in
    print_toks (entry_counter (List.map ev toks)));
  register "crl" (fun toks ->
    let c = config_of (take 13 toks) in
    let gaps = match drop 13 toks with [g] -> if g = "~" then [] else List.map z_of_string (String.split_on_char ',' g) | _ -> failwith "crl" in
    print_toks (entry_rl c gaps))
