(* C20: start-up configuration model entry points.
   cfkey <v1 v2 v3> <hex>                       -> code
   cfval <v1 v2 v3> | <11 hex strings> | <5 ints>  -> validate-code ingresses-code router-code
   cfrun <v1 v2 v3> | <49 string channels> | <14 typed channels> | <jwk oracle> | <redis oracle> | <fetch oracle>
         | <json endsession jwks> | <algs> | <acrs> | <locales>   -> outcome class
   string channel: "~" = not supplied, "-" = supplied empty, else hex; typed channel: "~" absent, "!" malformed, else int *)
open Model
open Common

let cf_sopt t = if t = "~" then None else Some (bytes_of_hex t)
let cf_topt t = if t = "~" then CfAbsent else if t = "!" then CfBad else CfVal (z_of_string t)
let cf_hexes l = List.map bytes_of_hex l

(* variant flags as the first three tokens of every line: enc_key_strict wait_nonneg ingress_pattern_strict *)
let cf_variant_of a b c = mk_cf_variant_of (a = "1") (b = "1") (c = "1")

let () = register "cfkey" (fun toks ->
  match toks with [a; b; c; k] -> print_z1 (entry_cfkey (cf_variant_of a b c) (bytes_of_hex k)) | _ -> print_endline "?bad cfkey line")

let () = register "cfval" (fun toks ->
  match split_bar toks with
  | [[a; b; c]; ss; zs] -> print_zs (entry_cfval (cf_variant_of a b c) (cf_hexes ss) (List.map z_of_string zs))
  | _ -> print_endline "?bad cfval line")

let () = register "cfrun" (fun toks ->
  match split_bar toks with
  | [[a; b; c]; ss; ts; oj; ored; ofe; [dj; de; dk]; algs; acrs; locs] ->
    print_z1 (entry_cfrun (cf_variant_of a b c) (List.map cf_sopt ss) (List.map cf_topt ts) (cf_hexes oj) (cf_hexes ored) (cf_hexes ofe)
                (dj = "1") (de = "1") (dk = "1") (cf_hexes algs) (cf_hexes acrs) (cf_hexes locs))
  | _ -> print_endline "?bad cfrun line")
