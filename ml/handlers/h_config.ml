(* C20: start-up configuration model entry points.
   cfkey <hex>                                  -> code
   cfval <11 hex strings> | <5 ints>            -> validate-code ingresses-code router-code
   cfrun <45 string channels> | <10 typed channels> | <jwk oracle> | <redis oracle> | <fetch oracle>
         | <json endsession jwks> | <algs> | <acrs> | <locales>   -> outcome class
   string channel: "~" = not supplied, "-" = supplied empty, else hex; typed channel: "~" absent, "!" malformed, else int *)
open Model
open Common

let cf_sopt t = if t = "~" then None else Some (bytes_of_hex t)
let cf_topt t = if t = "~" then CfAbsent else if t = "!" then CfBad else CfVal (z_of_string t)
let cf_hexes l = List.map bytes_of_hex l

let () = register "cfkey" (fun toks ->
  match toks with [k] -> print_z1 (entry_cfkey (bytes_of_hex k)) | _ -> print_endline "?bad cfkey line")

let () = register "cfval" (fun toks ->
  match split_bar toks with
  | [ss; zs] -> print_zs (entry_cfval (cf_hexes ss) (List.map z_of_string zs))
  | _ -> print_endline "?bad cfval line")

let () = register "cfrun" (fun toks ->
  match split_bar toks with
  | [ss; ts; oj; ored; ofe; [dj; de; dk]; algs; acrs; locs] ->
    print_z1 (entry_cfrun (List.map cf_sopt ss) (List.map cf_topt ts) (cf_hexes oj) (cf_hexes ored) (cf_hexes ofe)
                (dj = "1") (de = "1") (dk = "1") (cf_hexes algs) (cf_hexes acrs) (cf_hexes locs))
  | _ -> print_endline "?bad cfrun line")
