open Model
open Common

let () = register "meta" (fun toks ->
  match toks with
  | [now; created; ends; timeout; expire; refreshed] ->
    let m = { created = z_of_string created; ends = z_of_string ends; timeout = zopt timeout;
              expire = z_of_string expire; refreshed = z_of_string refreshed } in
    print_zs (entry_meta (z_of_string now) m)
  | _ -> print_endline "?bad meta line")
