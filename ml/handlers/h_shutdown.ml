(* C19: shutdown timeline model. Line: shutdown <wait_nonneg 0/1> <W> <G> | <arrivals...> | <service times...>  (ns, relative to the signal)
   Output: 0 (refused at start-up) or 1 close deadline exit_time exit_code accepted... completes... *)
open Model
open Common

let () = register "shutdown" (fun toks ->
  match split_bar toks with
  | [[nn; w; g]; arr; svc] ->
    print_zs (entry_shutdown (nn = "1") (z_of_string w) (z_of_string g) (List.map z_of_string arr) (List.map z_of_string svc))
  | _ -> print_endline "?bad shutdown line")
