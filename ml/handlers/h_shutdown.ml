(* C19: shutdown timeline model.
   Line: shutdown <wait_nonneg 0/1> <W> <G> | <arrivals...> | <service times...> [| <signal instants...> | <signal kinds...>]
   (ns, relative to the first signal; the signal lists include the first signal; absent = one signal)
   Output: 0 (refused at start-up) or 1 close deadline exit_time exit_code accepted... completes... *)
open Model
open Common

let () = register "shutdown" (fun toks ->
  let zs = List.map z_of_string in
  match split_bar toks with
  | [[nn; w; g]; arr; svc] ->
    print_zs (entry_shutdown (nn = "1") (z_of_string w) (z_of_string g) (zs arr) (zs svc) [] [])
  | [[nn; w; g]; arr; svc; sat; skind] ->
    print_zs (entry_shutdown (nn = "1") (z_of_string w) (z_of_string g) (zs arr) (zs svc) (zs sat) (zs skind))
  | _ -> print_endline "?bad shutdown line")
