(* C19: shutdown timeline model.
   Line: shutdown <wait_nonneg 0/1> <W> <G> | <arrivals...> | <service times...> [| <signal instants...> | <signal kinds...> [| <sync 0/1...> [| <request kinds...> [| <tracing>]]]]
   (ns, relative to the first signal; the signal lists include the first signal; absent = one signal; sync = the completion
   of that request is synchronised to the process's close instant; request kinds = what the request makes the process do
   (0 proxied to the upstream, 1 login, 2 login after a key rotation at the provider, 3 session refresh, 4 logout): the model
   does not look at them - a request is an arrival and a service time whatever its kind; tracing = the deployment's
   OpenTelemetry setting (0 off, 1 on with an unreachable collector, 2 on with a collector that never answers): the timeline
   of pkg/server/server.go does not depend on it, the model does not look at it either)
   Output: 0 (refused at start-up) or 1 close deadline exit_time exit_code accepted... completes... robust *)
open Model
open Common

let () = register "shutdown" (fun toks ->
  let zs = List.map z_of_string in
  let go nn w g arr svc sat skind sync =
    print_zs (entry_shutdown (nn = "1") (z_of_string w) (z_of_string g) (zs arr) (zs svc) (zs sat) (zs skind) (zs sync)) in
  match split_bar toks with
  | [[nn; w; g]; arr; svc] -> go nn w g arr svc [] [] []
  | [[nn; w; g]; arr; svc; sat; skind] -> go nn w g arr svc sat skind []
  | [[nn; w; g]; arr; svc; sat; skind; sync] -> go nn w g arr svc sat skind sync
  | [[nn; w; g]; arr; svc; sat; skind; sync; _kinds] -> go nn w g arr svc sat skind sync
  | [[nn; w; g]; arr; svc; sat; skind; sync; _kinds; _tracing] -> go nn w g arr svc sat skind sync
  | _ -> print_endline "?bad shutdown line")
