(* Model/Crypt.v. Line: crypt <sealkey> <openkey> <op> <arg> <plaintext-hex> ; prints "ok <hex>" or "fail" *)
open Model
open Common

let () = register "crypt" (fun toks ->
    match toks with
    | [sk; ok; op; arg; pt] ->
      (match entry_crypt (n_of_int (int_of_string sk)) (n_of_int (int_of_string ok)) (n_of_int (int_of_string op))
               (n_of_int (int_of_string arg)) (bytes_of_hex pt) with
       | Some p -> print_endline ("ok " ^ hex_of_bytes p)
       | None -> print_endline "fail")
    | _ -> print_endline "?bad crypt line")
