(* Model/Crypt.v. Line: crypt <sealkey> <openkey> <op> <arg> <plaintext-hex> ; prints "ok <hex>" or "fail" *)
open Model
open Common

let () = register "crypt" (fun toks ->
    match toks with
    | [sk; ok; op; arg; pt] ->
      (match entry_crypt (n_of_int (int_of_string sk)) (n_of_int (int_of_string ok)) (n_of_int (int_of_string op))
               (n_of_int (int_of_string arg)) (bytes_of_hex pt) with
       | Some p -> print_endline ("ok " ^ hex_of_bytes p)
       | None -> print_endline "fail")
    | _ -> print_endline "?bad crypt line")

(* data keys of sessions. logins: k:c,k:c,... (store key id : position of the login whose cookie the callback carried, "~" = none)
   dekmint <logins>          prints the data-key ids in login order
   dekswap <logins> <i> <j>  prints "ok" if the cookie of login i opens the stored value of login j, else "fail" *)
let parse_logins (s : string) : (n * n option) list =
  List.map (fun kc -> match String.split_on_char ':' kc with
      | [k; c] -> (n_of_int (int_of_string k), (if c = "~" then None else Some (n_of_int (int_of_string c))))
      | _ -> failwith ("login " ^ kc)) (if s = "-" then [] else String.split_on_char ',' s)

let () = register "dekmint" (fun toks ->
    match toks with
    | [logins] -> print_endline (String.concat " " (List.map (fun d -> string_of_int (int_of_n d)) (entry_mint (parse_logins logins))))
    | _ -> print_endline "?bad dekmint line")

let () = register "dekswap" (fun toks ->
    match toks with
    | [logins; i; j] ->
      print_endline (if entry_dekswap (parse_logins logins) (n_of_int (int_of_string i)) (n_of_int (int_of_string j)) then "ok" else "fail")
    | _ -> print_endline "?bad dekswap line")
