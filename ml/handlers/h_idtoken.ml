(* Model/IdToken.v. Line: idtok <issuer> <client_id> <trusted,..> <sidreq> <acrcfg> | <mutate> <kid,mat,alg,use;...> |
   <kid|~> <hdralg> <signedmat,alg|~> <iss|~> <sub|~> <aud,..|~> <exp|~> <iat|~> <nbf|~> <nonce|~> <sid01> <acrpresent01> <acr> | <nonce> <cookieacr> <now> | <shape>
   "~" = absent, "-" = empty string, times in ns *)
open Model
open Common

let alg_of = function
  | "RS256" -> ARS256 | "PS256" -> APS256 | "ES256" -> AES256 | "HS256" -> AHS256 | "none" -> ANone | _ -> ANotSig

let opt f s = if s = "~" then None else Some (f s)
let csv s = if s = "-" || s = "" then [] else String.split_on_char ',' s

let parse_key s =
  match String.split_on_char ',' s with
  | [kid; mat; alg; use] ->
    { k_kid = bytes_of_hex kid; k_mat = n_of_int (int_of_string mat);
      k_alg = (if alg = "~" then None else Some (alg_of alg));
      k_use = (match use with "sig" -> USig | "enc" -> UEnc | _ -> UNone) }
  | _ -> failwith "key"

let () = register "idtok" (fun toks ->
    match split_bar toks with
    | [[iss; cid; trusted; sidreq; acrcfg; expstrict]; [mutate; keys];
       [kid; hdralg; signed; tiss; tsub; taud; texp; tiat; tnbf; tnonce; tsid; tacrp; tacr];
       [nonce; cacr; now]; [shape]] ->
      let c = mk_icfg (bytes_of_hex iss) (bytes_of_hex cid) (List.map bytes_of_hex (csv trusted)) (sidreq = "1") (acrcfg = "1") (expstrict = "1") in
      let ks = List.map parse_key (if keys = "-" then [] else String.split_on_char ';' keys) in
      let t = { t_kid = opt bytes_of_hex kid; t_hdr_alg = alg_of hdralg;
                t_signed = (if signed = "~" then None else
                              match String.split_on_char ',' signed with
                              | [m; a] -> Some (n_of_int (int_of_string m), alg_of a) | _ -> failwith "signed");
                t_iss = opt bytes_of_hex tiss; t_sub = opt bytes_of_hex tsub;
                t_aud = (if taud = "~" then None else Some (List.map bytes_of_hex (csv taud)));
                t_exp = opt z_of_string texp; t_iat = opt z_of_string tiat; t_nbf = opt z_of_string tnbf;
                t_nonce = opt bytes_of_hex tnonce; t_sid = (tsid = "1"); t_acr_present = (tacrp = "1"); t_acr = bytes_of_hex tacr } in
      let r = match shape with
        | "ok" -> RespToken t | "noidtoken" -> RespNoIdToken | "notstring" -> RespNotString | _ -> RespMalformed in
      print_endline (zb (entry_idtoken c (mutate = "1") ks (bytes_of_hex nonce) (bytes_of_hex cacr) r (z_of_string now)))
    | _ -> print_endline "?bad idtok line")
