(* C04: the error handler's automatic retry (Model/RetryUri.v). Lines:
     ru.loc  <sso 0|1> <domain> <default-url> <ingress paths, comma separated> <request-target> <Host> <X-Forwarded-Host> <referer | ~>
     ru.link (same tokens)
   Host and X-Forwarded-Host are on the line for the record only: Retry does not read them, the model does not take them.
   Output: ru.loc = the Location of the 307; ru.link = the text between the quotes of the error page's retry link. *)
open Model
open Common

let ru_fields toks =
  match toks with
  | [sso; dom; fb; paths; target; _host; _xfh; referer] ->
    let pl = List.map bytes_of_hex (String.split_on_char ',' paths) in
    let has, rf = if referer = "~" then (false, []) else (true, bytes_of_hex referer) in
    Some (ru_entry_retry (sso = "1") (bytes_of_hex dom) (bytes_of_hex fb) pl (bytes_of_hex target) has rf)
  | _ -> None

let ru_print k toks =
  match ru_fields toks with
  | Some [_; loc; href] -> print_endline (hex_of_bytes (if k = 1 then loc else href))
  | Some _ -> print_endline "45"
  | None -> print_endline "?bad ru line"

let () = register "ru.loc" (ru_print 1)
let () = register "ru.link" (ru_print 2)
