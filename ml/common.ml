(* Line-protocol driver around the extracted model (Model). Trusted for the
   correspondence check only: parses decimal integers / hex byte strings into the
   Coq datatypes, calls an entry point, prints the result. *)
open Model

let rec pos_of_int (n : int) : positive =
  if n = 1 then XH
  else if n land 1 = 0 then XO (pos_of_int (n lsr 1))
  else XI (pos_of_int (n lsr 1))

(* decimal string -> Coq Z, via repeated halving of an arbitrary-size decimal *)
let z_of_string (s : string) : z =
  let neg = String.length s > 0 && s.[0] = '-' in
  let s = if neg then String.sub s 1 (String.length s - 1) else s in
  (* values fit in 63 bits in every protocol we use *)
  let n = int_of_string s in
  if n = 0 then Z0 else if neg then Zneg (pos_of_int n) else Zpos (pos_of_int n)

let rec int_of_pos (p : positive) : int =
  match p with XH -> 1 | XO q -> 2 * int_of_pos q | XI q -> 2 * int_of_pos q + 1

let string_of_z (x : z) : string =
  match x with Z0 -> "0" | Zpos p -> string_of_int (int_of_pos p) | Zneg p -> "-" ^ string_of_int (int_of_pos p)

let n_of_int (i : int) : n = if i = 0 then N0 else Npos (pos_of_int i)
let int_of_n (x : n) : int = match x with N0 -> 0 | Npos p -> int_of_pos p

let bytes_of_hex (h : string) : n list =
  if h = "-" then [] else
  let l = String.length h / 2 in
  List.init l (fun i -> n_of_int (int_of_string ("0x" ^ String.sub h (2 * i) 2)))

let hex_of_bytes (b : n list) : string =
  if b = [] then "-" else String.concat "" (List.map (fun x -> Printf.sprintf "%02x" (int_of_n x)) b)

let zopt s = if s = "-" then None else Some (z_of_string s)

let print_zs (l : z list) = print_endline (String.concat " " (List.map string_of_z l))


(* handler registry: each ml/handlers/h_*.ml registers the line kinds it understands *)
let handlers : (string * (string list -> unit)) list ref = ref []
let register (name : string) (f : string list -> unit) =
  if List.mem_assoc name !handlers then failwith ("handler kind registered twice: " ^ name);
  handlers := (name, f) :: !handlers
let print_z1 (x : z) = print_endline (string_of_z x)
let print_bytes (b : n list) = print_endline (hex_of_bytes b)
let zb (b : bool) : string = if b then "1" else "0"

(* split a token list on "|" *)
let split_bar (toks : string list) : string list list =
  let rec go acc cur = function
    | [] -> List.rev (List.rev cur :: acc)
    | "|" :: r -> go (List.rev cur :: acc) [] r
    | x :: r -> go acc (x :: cur) r in
  go [] [] toks


